"""
vlog.parser -- lexer and recursive-descent parser for the Verilog subset py4hw can emit.

Anything outside the subset raises VlogUnsupported (reported as inconclusive by the checks);
text that is not Verilog at all raises VlogSyntaxError (a C03 finding: generation returned
text that does not parse).
"""
import re


class VlogSyntaxError(Exception):
    pass


class VlogUnsupported(Exception):
    pass


TOKEN_RE = re.compile(r"""
    (?P<ws>\s+)
  | (?P<lcomment>//[^\n]*)
  | (?P<bcomment>/\*.*?\*/)
  | (?P<star>\(\s*\*\s*\))
  | (?P<attr>\(\*.*?\*\))
  | (?P<based>(?:\d+\s*)?'[sS]?[bBoOdDhH]\s*[0-9a-fA-FxXzZ_?]+)
  | (?P<num>\d[\d_]*)
  | (?P<id>[A-Za-z_][A-Za-z0-9_$]*|\$[A-Za-z_][A-Za-z0-9_$]*|\\[^\s]+)
  | (?P<op><<<|>>>|===|!==|<<|>>|<=|>=|==|!=|&&|\|\||~&|~\||~\^|\^~|[-+*/%&|^~!<>=?:;,.(){}\[\]@\#])
""", re.X | re.S)

KEYWORDS = {'module', 'endmodule', 'input', 'output', 'inout', 'wire', 'reg', 'integer', 'assign', 'always', 'initial', 'begin', 'end',
            'if', 'else', 'case', 'endcase', 'default', 'posedge', 'negedge', 'parameter', 'localparam', 'signed', 'or'}


class Tok:
    __slots__ = ('kind', 'val', 'pos', 'line')

    def __init__(self, kind, val, pos, line):
        self.kind, self.val, self.pos, self.line = kind, val, pos, line

    def __repr__(self):
        return '%s(%r)@%d' % (self.kind, self.val, self.line)


def lex(text):
    toks = []
    pos = 0
    line = 1
    n = len(text)
    while pos < n:
        m = TOKEN_RE.match(text, pos)
        if not m:
            raise VlogSyntaxError('line %d: cannot tokenise %r' % (line, text[pos:pos + 20]))
        k = m.lastgroup
        v = m.group(k)
        if k in ('ws', 'lcomment', 'bcomment'):
            pass
        elif k == 'star':
            toks.append(Tok('op', '(', pos, line))
            toks.append(Tok('op', '*', pos, line))
            toks.append(Tok('op', ')', pos, line))
        elif k == 'attr':
            toks.append(Tok('attr', v, pos, line))
        else:
            toks.append(Tok(k, v, pos, line))
        line += v.count('\n')
        pos = m.end()
    toks.append(Tok('eof', '', pos, line))
    return toks


# ---- AST ------------------------------------------------------------------------------------------

class Node:
    def __repr__(self):
        return '%s(%s)' % (type(self).__name__, ', '.join('%s=%r' % (k, v) for k, v in self.__dict__.items()))


class Num(Node):
    def __init__(self, value, width, signed, sized, has_xz=False):
        self.value, self.width, self.signed, self.sized, self.has_xz = value, width, signed, sized, has_xz


class Id(Node):
    def __init__(self, name):
        self.name = name


class Index(Node):        # a[i]
    def __init__(self, base, index):
        self.base, self.index = base, index


class PartSel(Node):      # a[h:l]
    def __init__(self, base, hi, lo):
        self.base, self.hi, self.lo = base, hi, lo


class Concat(Node):
    def __init__(self, parts):
        self.parts = parts


class Repl(Node):
    def __init__(self, count, value):
        self.count, self.value = count, value


class Unary(Node):
    def __init__(self, op, a):
        self.op, self.a = op, a


class Binary(Node):
    def __init__(self, op, a, b):
        self.op, self.a, self.b = op, a, b


class Cond(Node):
    def __init__(self, c, a, b):
        self.c, self.a, self.b = c, a, b


class SysCall(Node):
    def __init__(self, name, args):
        self.name, self.args = name, args


class Decl(Node):
    def __init__(self, kind, name, rng, signed=False, init=None, mem=None, line=0):
        self.kind, self.name, self.rng, self.signed, self.init, self.mem, self.line = kind, name, rng, signed, init, mem, line


class Port(Node):
    def __init__(self, direction, name, rng, isreg, signed=False):
        self.direction, self.name, self.rng, self.isreg, self.signed = direction, name, rng, isreg, signed


class Assign(Node):
    def __init__(self, lhs, rhs, line=0):
        self.lhs, self.rhs, self.line = lhs, rhs, line


class Always(Node):
    def __init__(self, sens, body, line=0):
        self.sens, self.body, self.line = sens, body, line    # sens: '*' or list of (edge, expr)


class Initial(Node):
    def __init__(self, body):
        self.body = body


class Instance(Node):
    def __init__(self, module, name, params, conns, attrs=None, line=0):
        self.module, self.name, self.params, self.conns, self.attrs, self.line = module, name, params, conns, attrs, line


class Block(Node):
    def __init__(self, stmts):
        self.stmts = stmts


class If(Node):
    def __init__(self, cond, then, els):
        self.cond, self.then, self.els = cond, then, els


class Case(Node):
    def __init__(self, expr, items, default):
        self.expr, self.items, self.default = expr, items, default


class BAssign(Node):      # blocking
    def __init__(self, lhs, rhs):
        self.lhs, self.rhs = lhs, rhs


class NBAssign(Node):     # non-blocking
    def __init__(self, lhs, rhs):
        self.lhs, self.rhs = lhs, rhs


class Module(Node):
    def __init__(self, name, params, ports, items, line=0):
        self.name, self.params, self.ports, self.items, self.line = name, params, ports, items, line


def parse_based(text):
    m = re.match(r"(?:(\d+)\s*)?'([sS]?)([bBoOdDhH])\s*([0-9a-fA-FxXzZ_?]+)", text)
    size, s, base, digits = m.groups()
    digits = digits.replace('_', '')
    has_xz = any(c in 'xXzZ?' for c in digits)
    b = {'b': 2, 'o': 8, 'd': 10, 'h': 16}[base.lower()]
    if has_xz:
        value = 0
    else:
        value = int(digits, b)
    width = int(size) if size else 32
    sized = size is not None
    if sized:
        value &= (1 << width) - 1
    return Num(value, width, bool(s), sized, has_xz)


class Parser:
    def __init__(self, text):
        self.toks = lex(text)
        self.i = 0

    # -- helpers
    def peek(self, k=0):
        return self.toks[self.i + k]

    def next(self):
        t = self.toks[self.i]
        self.i += 1
        return t

    def at(self, val):
        t = self.peek()
        return t.kind in ('op', 'id') and t.val == val

    def accept(self, val):
        if self.at(val):
            return self.next()
        return None

    def expect(self, val):
        t = self.next()
        if t.val != val or t.kind not in ('op', 'id'):
            raise VlogSyntaxError('line %d: expected %r, found %r' % (t.line, val, t.val))
        return t

    def ident(self):
        t = self.next()
        if t.kind != 'id' or t.val.startswith('$'):
            raise VlogSyntaxError('line %d: expected an identifier, found %r' % (t.line, t.val))
        return t.val

    # -- top level
    def parse_file(self):
        mods = []
        while self.peek().kind != 'eof':
            if self.peek().kind == 'attr':
                self.next()
                continue
            mods.append(self.parse_module())
        return mods

    def parse_module(self):
        t = self.expect('module')
        name = self.ident()
        params = []
        if self.accept('#'):
            self.expect('(')
            while not self.at(')'):
                self.accept('parameter')
                rng = self.opt_range()
                pn = self.ident()
                dv = None
                if self.accept('='):
                    dv = self.expr()
                params.append((pn, dv))
                if not self.accept(','):
                    break
            self.expect(')')
        ports = []
        if self.accept('('):
            last_dir = None
            last = None
            while not self.at(')'):
                d = None
                for kw in ('input', 'output', 'inout'):
                    if self.accept(kw):
                        d = kw
                        break
                isreg = False
                signed = False
                if d is None:
                    if last is None:
                        raise VlogUnsupported('non-ANSI port list')
                    d, isreg, signed, rng = last
                else:
                    if self.accept('wire'):
                        pass
                    if self.accept('reg'):
                        isreg = True
                    if self.accept('signed'):
                        signed = True
                    rng = self.opt_range()
                    last = (d, isreg, signed, rng)
                pn = self.ident()
                ports.append(Port(d, pn, rng, isreg, signed))
                if not self.accept(','):
                    break
            self.expect(')')
        self.expect(';')
        items = []
        while not self.at('endmodule'):
            if self.peek().kind == 'eof':
                raise VlogSyntaxError('missing endmodule for %s' % name)
            items.extend(self.parse_item())
        self.expect('endmodule')
        return Module(name, params, ports, items, t.line)

    def opt_range(self):
        if self.at('['):
            self.next()
            hi = self.expr()
            self.expect(':')
            lo = self.expr()
            self.expect(']')
            return (hi, lo)
        return None

    def parse_item(self):
        t = self.peek()
        attrs = None
        if t.kind == 'attr':
            attrs = self.next().val
            t = self.peek()
        if t.kind == 'id' and t.val in ('wire', 'reg', 'integer'):
            self.next()
            signed = bool(self.accept('signed'))
            rng = self.opt_range() if t.val != 'integer' else None
            out = []
            while True:
                name = self.ident()
                mem = self.opt_range()
                init = None
                if self.accept('='):
                    init = self.expr()
                out.append(Decl(t.val, name, rng, signed or t.val == 'integer', init, mem, t.line))
                if not self.accept(','):
                    break
            self.expect(';')
            return out
        if t.kind == 'id' and t.val in ('parameter', 'localparam'):
            raise VlogUnsupported('parameter declaration in module body')
        if self.accept('assign'):
            lhs = self.lvalue()
            self.expect('=')
            rhs = self.expr()
            self.expect(';')
            return [Assign(lhs, rhs, t.line)]
        if self.accept('always'):
            self.expect('@')
            sens = None
            if self.accept('*'):
                sens = '*'
            else:
                self.expect('(')
                if self.accept('*'):
                    sens = '*'
                else:
                    sens = []
                    while True:
                        edge = None
                        if self.accept('posedge'):
                            edge = 'posedge'
                        elif self.accept('negedge'):
                            edge = 'negedge'
                        e = self.expr()
                        sens.append((edge, e))
                        if not (self.accept('or') or self.accept(',')):
                            break
                self.expect(')')
            body = self.stmt()
            return [Always(sens, body, t.line)]
        if self.accept('initial'):
            return [Initial(self.stmt())]
        if t.kind == 'id' and t.val not in KEYWORDS:
            # module instance
            mod = self.ident()
            params = []
            if self.accept('#'):
                self.expect('(')
                while not self.at(')'):
                    self.expect('.')
                    pn = self.ident()
                    self.expect('(')
                    pv = self.expr()
                    self.expect(')')
                    params.append((pn, pv))
                    if not self.accept(','):
                        break
                self.expect(')')
            iname = self.ident()
            self.expect('(')
            conns = []
            while not self.at(')'):
                self.expect('.')
                pn = self.ident()
                self.expect('(')
                e = None if self.at(')') else self.expr()
                self.expect(')')
                conns.append((pn, e))
                if not self.accept(','):
                    break
            self.expect(')')
            self.expect(';')
            return [Instance(mod, iname, params, conns, attrs, t.line)]
        raise VlogSyntaxError('line %d: unexpected %r in module body' % (t.line, t.val))

    def lvalue(self):
        if self.at('{'):
            raise VlogUnsupported('concatenation as assignment target')
        name = self.ident()
        e = Id(name)
        while self.at('['):
            self.next()
            a = self.expr()
            if self.accept(':'):
                b = self.expr()
                self.expect(']')
                e = PartSel(e, a, b)
            else:
                self.expect(']')
                e = Index(e, a)
        return e

    # -- statements
    def stmt(self):
        t = self.peek()
        if self.accept('begin'):
            if self.accept(':'):
                self.ident()
            stmts = []
            while not self.at('end'):
                if self.peek().kind == 'eof':
                    raise VlogSyntaxError('missing end')
                stmts.append(self.stmt())
            self.expect('end')
            return Block(stmts)
        if self.accept('if'):
            self.expect('(')
            c = self.expr()
            self.expect(')')
            th = self.stmt()
            el = None
            if self.accept('else'):
                el = self.stmt()
            return If(c, th, el)
        if self.accept('case'):
            self.expect('(')
            e = self.expr()
            self.expect(')')
            items = []
            default = None
            while not self.at('endcase'):
                if self.accept('default'):
                    self.accept(':')
                    default = self.stmt()
                    continue
                labels = [self.expr()]
                while self.accept(','):
                    labels.append(self.expr())
                self.expect(':')
                items.append((labels, self.stmt()))
            self.expect('endcase')
            return Case(e, items, default)
        if self.accept(';'):
            return Block([])
        if t.kind == 'id' and t.val in ('for', 'while', 'repeat', 'forever', 'casex', 'casez', 'wait', 'disable', 'fork'):
            raise VlogUnsupported('statement %s' % t.val)
        lhs = self.lvalue()
        if self.accept('<='):
            rhs = self.expr()
            self.expect(';')
            return NBAssign(lhs, rhs)
        self.expect('=')
        rhs = self.expr()
        self.expect(';')
        return BAssign(lhs, rhs)

    # -- expressions (precedence climbing)
    BIN = [
        ['||'], ['&&'], ['|', '~|'], ['^', '~^', '^~'], ['&', '~&'], ['==', '!=', '===', '!=='], ['<', '<=', '>', '>='],
        ['<<', '>>', '<<<', '>>>'], ['+', '-'], ['*', '/', '%'],
    ]

    def expr(self):
        c = self.binary(0)
        if self.accept('?'):
            a = self.expr()
            self.expect(':')
            b = self.expr()
            return Cond(c, a, b)
        return c

    def binary(self, level):
        if level == len(self.BIN):
            return self.unary()
        a = self.binary(level + 1)
        while True:
            t = self.peek()
            if t.kind == 'op' and t.val in self.BIN[level]:
                self.next()
                b = self.binary(level + 1)
                a = Binary(t.val, a, b)
            else:
                return a

    def unary(self):
        t = self.peek()
        if t.kind == 'op' and t.val in ('~', '!', '-', '+', '&', '|', '^', '~&', '~|', '~^', '^~'):
            self.next()
            return Unary(t.val, self.unary())
        return self.primary()

    def primary(self):
        t = self.next()
        if t.kind == 'num':
            return Num(int(t.val.replace('_', '')), 32, True, False)
        if t.kind == 'based':
            return parse_based(t.val)
        if t.kind == 'op' and t.val == '(':
            e = self.expr()
            self.expect(')')
            return e
        if t.kind == 'op' and t.val == '{':
            first = self.expr()
            if self.at('{'):
                self.next()
                parts = [self.expr()]
                while self.accept(','):
                    parts.append(self.expr())
                self.expect('}')
                self.expect('}')
                return Repl(first, Concat(parts) if len(parts) > 1 else parts[0])
            parts = [first]
            while self.accept(','):
                parts.append(self.expr())
            self.expect('}')
            return Concat(parts)
        if t.kind == 'id':
            if t.val.startswith('$'):
                self.expect('(')
                args = [self.expr()]
                while self.accept(','):
                    args.append(self.expr())
                self.expect(')')
                return SysCall(t.val, args)
            if t.val in KEYWORDS:
                raise VlogSyntaxError('line %d: reserved word %r used in an expression' % (t.line, t.val))
            e = Id(t.val)
            while self.at('['):
                self.next()
                a = self.expr()
                if self.accept(':'):
                    b = self.expr()
                    self.expect(']')
                    e = PartSel(e, a, b)
                else:
                    self.expect(']')
                    e = Index(e, a)
            return e
        raise VlogSyntaxError('line %d: unexpected %r in expression' % (t.line, t.val))


def parse(text):
    return Parser(text).parse_file()
