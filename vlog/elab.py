"""
vlog.elab -- elaboration of the parsed Verilog subset into a flat design, the C03 resolution
obligations, and a two-state IEEE 1364 semantics producing z3 terms (power-up state, next-state
function, outputs).

Stated abstractions: two-state (no X/Z); a variable without initialiser powers up as 0 (such
variables are listed as `x_sensitive`); `/` and `%` by zero are left to the harness assumption.
"""
import re

import z3

from .parser import (Num, Id, Index, PartSel, Concat, Repl, Unary, Binary, Cond, SysCall, Decl, Port, Assign, Always, Initial,
                     Instance, Block, If, Case, BAssign, NBAssign, Module, VlogUnsupported, VlogSyntaxError, parse, KEYWORDS)

RESERVED = set("""always and assign begin buf bufif0 bufif1 case casex casez cmos deassign default defparam disable edge else end endcase
endfunction endmodule endprimitive endspecify endtable endtask event for force forever fork function highz0 highz1 if ifnone initial inout
input integer join large macromodule medium module nand negedge nmos nor not notif0 notif1 or output parameter pmos posedge primitive pull0
pull1 pulldown pullup rcmos real realtime reg release repeat rnmos rpmos rtran rtranif0 rtranif1 scalared small specify specparam strong0
strong1 supply0 supply1 table task time tran tranif0 tranif1 tri tri0 tri1 triand trior trireg vectored wait wand weak0 weak1 while wire
wor xnor xor automatic cell config design endconfig endgenerate generate genvar incdir include instance liblist library localparam
noshowcancelled pulsestyle_ondetect pulsestyle_onevent showcancelled signed unsigned use uwire""".split())

IDENT_RE = re.compile(r'^[A-Za-z_][A-Za-z0-9_$]*$')


class Net:
    def __init__(self, name, width, signed, kind, init=None, depth=None, line=0):
        self.name, self.width, self.signed, self.kind, self.init, self.depth, self.line = name, width, signed, kind, init, depth, line
        self.direction = None
        self.cont = []          # continuous drivers: (hi, lo, expr, scope, what)
        self.proc = []          # procedural drivers: block ids
        self.base_lo = 0


class Scope:
    def __init__(self, prefix, module, params):
        self.prefix, self.module, self.params = prefix, module, params

    def full(self, name):
        return self.prefix + name


class Design:
    def __init__(self):
        self.nets = {}
        self.comb_blocks = []        # (scope, stmt, targets)
        self.seq_blocks = []         # (scope, clock net name, edge, stmt, targets)
        self.initials = []           # (scope, stmt)
        self.obligations = []        # (name, ok, detail)
        self.inputs = []
        self.outputs = []
        self.top = None
        self.blackboxes = []
        self.instances = []          # (path, module name)
        self.module_texts = {}

    def ob(self, name, ok, detail=None):
        self.obligations.append((name, bool(ok), detail))


def const_eval(e, params=None):
    """constant expression -> int (ranges, replication counts, parameters)"""
    if isinstance(e, Num):
        return e.value
    if isinstance(e, Id):
        if params and e.name in params:
            return params[e.name]
        raise VlogUnsupported('non-constant identifier %s in a constant expression' % e.name)
    if isinstance(e, Unary):
        a = const_eval(e.a, params)
        return {'-': -a, '+': a, '~': ~a, '!': int(not a)}[e.op]
    if isinstance(e, Binary):
        a, b = const_eval(e.a, params), const_eval(e.b, params)
        ops = {'+': lambda: a + b, '-': lambda: a - b, '*': lambda: a * b, '/': lambda: a // b, '%': lambda: a % b,
               '<<': lambda: a << b, '>>': lambda: a >> b}
        if e.op in ops:
            return ops[e.op]()
    raise VlogUnsupported('constant expression %r' % e)


def legal_identifier(name):
    return bool(IDENT_RE.match(name)) and not name.startswith('$')


def elaborate(mods, top=None, blackboxes=()):
    d = Design()
    by_name = {}
    for m in mods:
        if m.name in by_name:
            d.ob('module %s is defined exactly once' % m.name, False, {'module': m.name})
        else:
            by_name[m.name] = m
        d.ob('module name %s is a legal, non-reserved identifier' % m.name, legal_identifier(m.name) and m.name not in RESERVED,
             {'module': m.name})
    if not mods:
        raise VlogSyntaxError('the text contains no module')
    if top is None:
        top = mods[0].name
    d.top = top
    if top not in by_name:
        raise VlogSyntaxError('top module %s not found' % top)
    d.by_name = by_name
    d.blackbox_names = set(blackboxes)
    d.fatal = None
    try:
        _instantiate(d, by_name[top], '', {}, is_top=True)
    except VlogUnsupported as e:
        d.fatal = str(e)
        return d
    _driver_obligations(d)
    return d


def _range(rng, params):
    if rng is None:
        return 1, 0
    hi, lo = const_eval(rng[0], params), const_eval(rng[1], params)
    if hi < lo:
        raise VlogUnsupported('ascending range [%d:%d]' % (hi, lo))
    return hi - lo + 1, lo


def _declare(d, scope, name, net, what, seen):
    mn = scope.module.name
    if name in seen:
        d.ob('%s: identifier %s is declared exactly once' % (mn, name), False, {'module': mn, 'identifier': name, 'first': seen[name], 'again': what})
        return False
    seen[name] = what
    d.ob('%s: identifier %s is a legal, non-reserved identifier' % (mn, name), legal_identifier(name) and name not in RESERVED,
         {'module': mn, 'identifier': name})
    d.nets[scope.full(name)] = net
    return True


def _instantiate(d, mod, prefix, params, is_top=False):
    scope = Scope(prefix, mod, params)
    seen = {}
    for pn, dv in mod.params:
        if pn not in params:
            if dv is None:
                raise VlogUnsupported('parameter %s of %s has no value' % (pn, mod.name))
            params[pn] = const_eval(dv, params)
    for p in mod.ports:
        w, lo = _range(p.rng, params)
        kind = 'reg' if p.isreg else 'wire'
        n = Net(scope.full(p.name), w, p.signed, kind, None, None, mod.line)
        n.direction = p.direction
        n.base_lo = lo
        _declare(d, scope, p.name, n, 'port', seen)
        if is_top:
            (d.inputs if p.direction == 'input' else d.outputs).append(p.name)
            if p.direction == 'inout':
                raise VlogUnsupported('inout port (needs Z)')
    for it in mod.items:
        if isinstance(it, Decl):
            if it.kind == 'integer':
                n = Net(scope.full(it.name), 32, True, 'integer', None, None, it.line)
            else:
                w, lo = _range(it.rng, params)
                n = Net(scope.full(it.name), w, it.signed, it.kind, None, None, it.line)
                n.base_lo = lo
                if it.mem is not None:
                    a, b = const_eval(it.mem[0], params), const_eval(it.mem[1], params)
                    n.depth = abs(a - b) + 1
                    n.mem_lo = min(a, b)
                    n.kind = 'mem'
            if it.init is not None:
                n.init = const_eval(it.init, params) & ((1 << n.width) - 1)
            _declare(d, scope, it.name, n, it.kind, seen)
    bid = 0
    for it in mod.items:
        if isinstance(it, Assign):
            _add_cont(d, scope, it.lhs, it.rhs, 'assign (line %d)' % it.line)
        elif isinstance(it, Always):
            targets = set()
            _collect_targets(it.body, targets)
            tn = set(scope.full(t) for t in targets)
            for t in targets:
                _use(d, scope, Id(t))
            _walk_stmt_uses(d, scope, it.body)
            bid += 1
            if it.sens == '*':
                d.comb_blocks.append((scope, it.body, tn))
                for t in tn:
                    if t in d.nets:
                        d.nets[t].proc.append(('comb', scope.prefix, bid))
            else:
                if len(it.sens) != 1 or it.sens[0][0] is None or not isinstance(it.sens[0][1], Id):
                    raise VlogUnsupported('sensitivity list other than one edge of one signal')
                edge, ce = it.sens[0]
                _use(d, scope, ce)
                d.seq_blocks.append((scope, scope.full(ce.name), edge, it.body, tn))
                for t in tn:
                    if t in d.nets:
                        d.nets[t].proc.append(('seq', scope.prefix, bid))
        elif isinstance(it, Initial):
            targets = set()
            _collect_targets(it.body, targets)
            for t in targets:
                _use(d, scope, Id(t))
            d.initials.append((scope, it.body))
        elif isinstance(it, Instance):
            inst_name = it.name
            mn = mod.name
            if inst_name in seen:
                d.ob('%s: identifier %s is declared exactly once' % (mn, inst_name), False,
                     {'module': mn, 'identifier': inst_name, 'first': seen[inst_name], 'again': 'instance'})
            seen[inst_name] = 'instance'
            d.ob('%s: identifier %s is a legal, non-reserved identifier' % (mn, inst_name),
                 legal_identifier(inst_name) and inst_name not in RESERVED, {'module': mn, 'identifier': inst_name})
            d.instances.append((scope.full(inst_name), it.module))
            callee = d.by_name.get(it.module)
            if callee is None:
                if it.module in d.blackbox_names:
                    d.blackboxes.append((scope.full(inst_name), it.module))
                    for pn, e in it.conns:
                        if e is not None:
                            _walk_expr_uses(d, scope, e)
                    raise VlogUnsupported('instance of external black box %s (no semantics)' % it.module)
                d.ob('%s: instantiated module %s is defined' % (mn, it.module), False, {'instance': inst_name, 'module': it.module})
                raise VlogUnsupported('undefined module %s' % it.module)
            d.ob('%s: instantiated module %s is defined' % (mn, it.module), True)
            cparams = {}
            cpnames = [x[0] for x in callee.params]
            for pn, pv in it.params:
                d.ob('%s: parameter %s exists in module %s' % (mn, pn, it.module), pn in cpnames, {'instance': inst_name, 'parameter': pn})
                cparams[pn] = const_eval(pv, params)
            cprefix = scope.full(inst_name) + '.'
            _instantiate(d, callee, cprefix, cparams)
            cports = {p.name: p for p in callee.ports}
            connected = set()
            for pn, e in it.conns:
                ok = pn in cports
                d.ob('%s: instance %s connects port %s that exists in %s' % (mn, inst_name, pn, it.module), ok,
                     {'instance': inst_name, 'module': it.module, 'port': pn, 'ports of the module': sorted(cports)})
                if pn in connected:
                    d.ob('%s: instance %s connects port %s once' % (mn, inst_name, pn), False, {'port': pn})
                connected.add(pn)
                if not ok or e is None:
                    continue
                _walk_expr_uses(d, scope, e)
                p = cports[pn]
                pw, _ = _range(p.rng, cparams)
                try:
                    ew, es = size_of(d, scope, e)
                except KeyError:
                    continue
                d.ob('%s: instance %s port %s width %d matches the connected expression width %d' % (mn, inst_name, pn, pw, ew), pw == ew,
                     {'instance': inst_name, 'port': pn, 'port width': pw, 'expression width': ew})
                cscope = Scope(cprefix, callee, cparams)
                if p.direction == 'input':
                    _add_cont(d, cscope, Id(pn), e, 'port binding of %s' % inst_name, rhs_scope=scope, port_in=True)
                elif p.direction == 'output':
                    if not isinstance(e, (Id, PartSel, Index)):
                        d.ob('%s: instance %s output port %s is connected to a net' % (mn, inst_name, pn), False, {'port': pn})
                        continue
                    _add_cont(d, scope, e, Id(pn), 'output %s of instance %s' % (pn, inst_name), rhs_scope=cscope)
                else:
                    raise VlogUnsupported('inout port connection')
            for pn, p in cports.items():
                if pn not in connected and p.direction == 'input':
                    d.ob('%s: instance %s leaves input port %s of %s unconnected' % (mn, inst_name, pn, it.module), False,
                         {'instance': inst_name, 'port': pn})
    return scope


def _collect_targets(st, acc):
    if isinstance(st, Block):
        for s in st.stmts:
            _collect_targets(s, acc)
    elif isinstance(st, If):
        _collect_targets(st.then, acc)
        if st.els is not None:
            _collect_targets(st.els, acc)
    elif isinstance(st, Case):
        for labels, s in st.items:
            _collect_targets(s, acc)
        if st.default is not None:
            _collect_targets(st.default, acc)
    elif isinstance(st, (BAssign, NBAssign)):
        e = st.lhs
        while not isinstance(e, Id):
            e = e.base
        acc.add(e.name)


def _use(d, scope, e):
    if isinstance(e, Id):
        if e.name in scope.params:
            return
        full = scope.full(e.name)
        if full not in d.nets:
            d.ob('%s: identifier %s is declared' % (scope.module.name, e.name), False, {'module': scope.module.name, 'identifier': e.name})
            raise VlogUnsupported('undeclared identifier %s in %s' % (e.name, scope.module.name))


def _walk_expr_uses(d, scope, e):
    if isinstance(e, Id):
        _use(d, scope, e)
    elif isinstance(e, (Index,)):
        _walk_expr_uses(d, scope, e.base)
        _walk_expr_uses(d, scope, e.index)
    elif isinstance(e, PartSel):
        _walk_expr_uses(d, scope, e.base)
    elif isinstance(e, Concat):
        for p in e.parts:
            _walk_expr_uses(d, scope, p)
    elif isinstance(e, Repl):
        _walk_expr_uses(d, scope, e.value)
    elif isinstance(e, Unary):
        _walk_expr_uses(d, scope, e.a)
    elif isinstance(e, Binary):
        _walk_expr_uses(d, scope, e.a)
        _walk_expr_uses(d, scope, e.b)
    elif isinstance(e, Cond):
        for x in (e.c, e.a, e.b):
            _walk_expr_uses(d, scope, x)
    elif isinstance(e, SysCall):
        for x in e.args:
            _walk_expr_uses(d, scope, x)


def _walk_stmt_uses(d, scope, st):
    if isinstance(st, Block):
        for s in st.stmts:
            _walk_stmt_uses(d, scope, s)
    elif isinstance(st, If):
        _walk_expr_uses(d, scope, st.cond)
        _walk_stmt_uses(d, scope, st.then)
        if st.els is not None:
            _walk_stmt_uses(d, scope, st.els)
    elif isinstance(st, Case):
        _walk_expr_uses(d, scope, st.expr)
        for labels, s in st.items:
            for l in labels:
                _walk_expr_uses(d, scope, l)
            _walk_stmt_uses(d, scope, s)
        if st.default is not None:
            _walk_stmt_uses(d, scope, st.default)
    elif isinstance(st, (BAssign, NBAssign)):
        _walk_expr_uses(d, scope, st.rhs)
        e = st.lhs
        if isinstance(e, Index):
            _walk_expr_uses(d, scope, e.index)


def _add_cont(d, scope, lhs, rhs, what, rhs_scope=None, port_in=False):
    rhs_scope = rhs_scope or scope
    base = lhs
    while not isinstance(base, Id):
        base = base.base
    _use(d, scope, base)
    _walk_expr_uses(d, rhs_scope, rhs)
    net = d.nets[scope.full(base.name)]
    if isinstance(lhs, Id):
        hi, lo = net.width - 1, 0
    elif isinstance(lhs, PartSel):
        hi, lo = const_eval(lhs.hi, scope.params) - net.base_lo, const_eval(lhs.lo, scope.params) - net.base_lo
    elif isinstance(lhs, Index):
        hi = lo = const_eval(lhs.index, scope.params) - net.base_lo
    d.ob('%s: assignment target %s select [%d:%d] lies inside the declared range' % (scope.module.name, base.name, hi, lo),
         0 <= lo <= hi < net.width, {'net': base.name, 'width': net.width, 'select': [hi, lo]})
    net.cont.append((hi, lo, rhs, rhs_scope, what, port_in))


def _driver_obligations(d):
    for name, n in d.nets.items():
        is_top_in = n.direction == 'input' and '.' not in name
        nd = len(n.cont) + (1 if n.proc else 0)
        if is_top_in:
            d.ob('top-level input %s has no driver inside the design' % name, nd == 0, {'net': name})
            continue
        if n.direction == 'input' and '.' in name:
            # driven exactly by its port binding
            inside = [c for c in n.cont if not c[5]]
            d.ob('input port %s is not driven from inside its module' % name, not inside and not n.proc,
                 {'net': name, 'drivers': [c[4] for c in inside]})
            continue
        if n.kind == 'wire':
            d.ob('wire %s is not assigned procedurally' % name, not n.proc, {'net': name})
            if n.cont:
                # partial drivers must be disjoint; together they must cover the net
                bits = [0] * n.width
                for hi, lo, *_ in n.cont:
                    for b in range(max(lo, 0), min(hi, n.width - 1) + 1):
                        bits[b] += 1
                d.ob('wire %s has exactly one driver per bit' % name, all(b == 1 for b in bits),
                     {'net': name, 'drivers': [c[4] for c in n.cont], 'drivers per bit': bits})
            else:
                d.ob('wire %s has a driver' % name, bool(n.proc), {'net': name})
        else:
            d.ob('variable %s is not driven by a continuous assignment or instance output' % name, not n.cont,
                 {'net': name, 'drivers': [c[4] for c in n.cont]})
            blocks = set((k, pfx, b) for k, pfx, b in n.proc)
            d.ob('variable %s is assigned in at most one always block' % name, len(blocks) <= 1, {'net': name, 'blocks': len(blocks)})


# ---------------------------------------------------------------------------------------------------
# expression sizing (IEEE 1364-2005 5.4)

def size_of(d, scope, e):
    if isinstance(e, Num):
        return e.width, e.signed
    if isinstance(e, Id):
        if e.name in scope.params:
            return 32, True
        n = d.nets[scope.full(e.name)]
        return n.width, n.signed
    if isinstance(e, Index):
        base = e.base
        if isinstance(base, Id) and scope.full(base.name) in d.nets and d.nets[scope.full(base.name)].kind == 'mem':
            n = d.nets[scope.full(base.name)]
            return n.width, False
        return 1, False
    if isinstance(e, PartSel):
        return const_eval(e.hi, scope.params) - const_eval(e.lo, scope.params) + 1, False
    if isinstance(e, Concat):
        return sum(size_of(d, scope, p)[0] for p in e.parts), False
    if isinstance(e, Repl):
        return const_eval(e.count, scope.params) * size_of(d, scope, e.value)[0], False
    if isinstance(e, Unary):
        if e.op in ('~', '-', '+'):
            return size_of(d, scope, e.a)
        return 1, False
    if isinstance(e, Binary):
        if e.op in ('+', '-', '*', '/', '%', '&', '|', '^', '~^', '^~'):
            (wa, sa), (wb, sb) = size_of(d, scope, e.a), size_of(d, scope, e.b)
            return max(wa, wb), sa and sb
        if e.op in ('<<', '>>', '<<<', '>>>'):
            return size_of(d, scope, e.a)
        return 1, False
    if isinstance(e, Cond):
        (wa, sa), (wb, sb) = size_of(d, scope, e.a), size_of(d, scope, e.b)
        return max(wa, wb), sa and sb
    if isinstance(e, SysCall):
        if e.name == '$signed':
            return size_of(d, scope, e.args[0])[0], True
        if e.name == '$unsigned':
            return size_of(d, scope, e.args[0])[0], False
        raise VlogUnsupported('system function %s' % e.name)
    raise VlogUnsupported('expression %r' % e)


def _fit(t, w, signed):
    cw = t.size()
    if cw == w:
        return t
    if cw > w:
        return z3.Extract(w - 1, 0, t)
    return z3.SignExt(w - cw, t) if signed else z3.ZeroExt(w - cw, t)


def _nonzero(t):
    return t != z3.BitVecVal(0, t.size())


def _b2v(c, w=1):
    return z3.If(c, z3.BitVecVal(1, w), z3.BitVecVal(0, w))


class Sim:
    """symbolic evaluator of a Design: inputs and state are z3 terms"""

    def __init__(self, design, inputs, state=None):
        self.d = design
        self.inputs = dict(inputs)          # top input name -> z3 BV
        self.state = dict(state) if state is not None else self.initial_state()
        self.memo = {}
        self.busy = set()
        self.div_guards = []                # z3 Bool: divisor != 0 for every / and % evaluated
        self.pc = []                        # conditions under which the expression being evaluated is executed
        self.width_guards = []              # z3 Bool: (path condition) => + - * << did not wrap at the width Verilog gives it

    # -- state ----------------------------------------------------------------------------------
    def state_nets(self):
        r = []
        for name, n in self.d.nets.items():
            if n.kind == 'mem':
                for k in range(n.depth):
                    r.append(('%s[%d]' % (name, k + n.mem_lo), n.width))
            elif n.proc:
                r.append((name, n.width))
        return r

    def initial_state(self):
        st = {}
        init = {}
        for scope, body in self.d.initials:
            env = {}
            self._exec_concrete_init(scope, body, env)
            init.update(env)
        self.x_sensitive = []
        self.init_values = init
        for name, w in self.state_nets():
            base = name.split('[')[0] if '[' in name and name.split('[')[0] in self.d.nets and self.d.nets[name.split('[')[0]].kind == 'mem' else name
            n = self.d.nets[base]
            if name in init:
                v = init[name]
            elif n.init is not None:
                v = n.init
            else:
                v = 0
                self.x_sensitive.append(name)
            st[name] = z3.BitVecVal(v & ((1 << w) - 1), w)
        return st

    def _exec_concrete_init(self, scope, st, env):
        if isinstance(st, Block):
            for s in st.stmts:
                self._exec_concrete_init(scope, s, env)
        elif isinstance(st, (BAssign, NBAssign)):
            v = const_eval(st.rhs, scope.params)
            if isinstance(st.lhs, Id):
                env[scope.full(st.lhs.name)] = v
            elif isinstance(st.lhs, Index):
                env['%s[%d]' % (scope.full(st.lhs.base.name), const_eval(st.lhs.index, scope.params))] = v
            else:
                raise VlogUnsupported('initial assignment target')
        else:
            raise VlogUnsupported('statement in initial block')

    def _inits(self):
        if not hasattr(self, 'init_values'):
            init = {}
            for scope, body in self.d.initials:
                self._exec_concrete_init(scope, body, init)
            self.init_values = init
        return self.init_values

    # -- nets -----------------------------------------------------------------------------------
    def value(self, name):
        """settled value of a net (z3 BV of the net's width)"""
        if name in self.memo:
            return self.memo[name]
        n = self.d.nets[name]
        if name in self.busy:
            raise VlogUnsupported('combinational loop through %s' % name)
        self.busy.add(name)
        try:
            if n.direction == 'input' and '.' not in name:
                v = self.inputs[name]
            elif n.cont:
                parts = {}
                for hi, lo, rhs, rscope, what, _pi in n.cont:
                    w = hi - lo + 1
                    ew, es = size_of(self.d, rscope, rhs)
                    cw = max(ew, w)
                    t = self.ev(rscope, rhs, cw, es)
                    parts[(hi, lo)] = _fit(t, w, False)
                if len(parts) == 1 and (n.width - 1, 0) in parts:
                    v = parts[(n.width - 1, 0)]
                else:
                    bits = [None] * n.width
                    for (hi, lo), t in parts.items():
                        for b in range(lo, hi + 1):
                            if 0 <= b < n.width:
                                bits[b] = z3.Extract(b - lo, b - lo, t)
                    for b in range(n.width):
                        if bits[b] is None:
                            bits[b] = z3.BitVecVal(0, 1)
                    v = z3.Concat(*reversed(bits)) if n.width > 1 else bits[0]
            elif n.proc and n.proc[0][0] == 'comb':
                v = self._comb_value(name)
            elif n.proc:
                v = self.state[name]
            elif n.kind in ('reg', 'integer') and (n.init is not None or name in self._inits()):
                iv = self._inits().get(name, n.init)
                v = z3.BitVecVal(iv & ((1 << n.width) - 1), n.width)  # variable that is only initialised
            else:
                v = z3.BitVecVal(0, n.width)      # undriven (reported by the driver obligations)
        finally:
            self.busy.discard(name)
        self.memo[name] = v
        return v

    def _comb_value(self, name):
        for scope, body, targets in self.d.comb_blocks:
            if name in targets:
                env, nba = {}, {}
                self.exec(scope, body, env, nba, comb=True)
                for t in targets:
                    if t in nba:
                        self.memo[t] = nba[t]
                    elif t in env:
                        self.memo[t] = env[t]
                    else:
                        self.memo[t] = self.state[t]
                return self.memo[name]
        raise VlogUnsupported('no always block for %s' % name)

    def read(self, scope, name, env):
        if name in scope.params:
            return z3.BitVecVal(scope.params[name], 32)
        full = scope.full(name)
        if env is not None and full in env:
            return env[full]
        n = self.d.nets[full]
        if env is not None and n.proc and not n.cont:
            # a variable read inside a procedural block: its current (pre-edge / previous) value
            if n.proc[0][0] == 'comb' and full not in self.memo:
                return self.state[full]
            if n.proc[0][0] == 'seq':
                return self.state[full]
        return self.value(full)

    # -- expressions ------------------------------------------------------------------------------
    def ev(self, scope, e, w, signed, env=None):
        """evaluate e in a context of width w and type `signed` (IEEE 1364-2005 5.5.2)"""
        if isinstance(e, Num):
            if e.has_xz:
                raise VlogUnsupported('x/z literal')
            if not e.sized and not (-(1 << 31) <= e.value < (1 << 32)):
                raise VlogUnsupported('unsized literal %d needs more than 32 bits (implementation-defined in IEEE 1364)' % e.value)
            return _fit(z3.BitVecVal(e.value, e.width), w, signed)
        if isinstance(e, Id):
            t = self.read(scope, e.name, env)
            return _fit(t, w, signed)
        if isinstance(e, Index):
            base = e.base
            if isinstance(base, Id) and scope.full(base.name) in self.d.nets and self.d.nets[scope.full(base.name)].kind == 'mem':
                n = self.d.nets[scope.full(base.name)]
                iw, isg = size_of(self.d, scope, e.index)
                idx = self.ev(scope, e.index, iw, isg, env)
                full = scope.full(base.name)
                t = z3.BitVecVal(0, n.width)
                for k in reversed(range(n.depth)):
                    cell = '%s[%d]' % (full, k + n.mem_lo)
                    cv = env[cell] if env is not None and cell in env else self.state[cell]
                    t = z3.If(idx == z3.BitVecVal(k + n.mem_lo, iw), cv, t)
                return _fit(t, w, signed)
            bw, bs = size_of(self.d, scope, base)
            bt = self.ev(scope, base, bw, bs, env)
            lo = self._base_lo(scope, base)
            try:
                i = const_eval(e.index, scope.params) - lo
                if not (0 <= i < bw):
                    raise VlogUnsupported('bit select out of range (x in IEEE 1364)')
                return _fit(z3.Extract(i, i, bt), w, signed)
            except VlogUnsupported:
                iw, isg = size_of(self.d, scope, e.index)
                idx = self.ev(scope, e.index, max(iw, bw.bit_length() + 1), False, env)
                sh = z3.LShR(_fit(bt, max(bw, idx.size()), False), _fit(idx, max(bw, idx.size()), False))
                return _fit(z3.Extract(0, 0, sh), w, signed)
        if isinstance(e, PartSel):
            bw, bs = size_of(self.d, scope, e.base)
            bt = self.ev(scope, e.base, bw, bs, env)
            lo0 = self._base_lo(scope, e.base)
            hi, lo = const_eval(e.hi, scope.params) - lo0, const_eval(e.lo, scope.params) - lo0
            if not (0 <= lo <= hi < bw):
                raise VlogUnsupported('part select [%d:%d] outside the %d-bit operand (x in IEEE 1364)' % (hi, lo, bw))
            return _fit(z3.Extract(hi, lo, bt), w, signed)
        if isinstance(e, Concat):
            ts = []
            for p in e.parts:
                pw, ps = size_of(self.d, scope, p)
                if isinstance(p, Num) and not p.sized:
                    raise VlogUnsupported('unsized constant in a concatenation')
                ts.append(self.ev(scope, p, pw, ps, env))
            t = z3.Concat(*ts) if len(ts) > 1 else ts[0]
            return _fit(t, w, signed)
        if isinstance(e, Repl):
            cnt = const_eval(e.count, scope.params)
            vw, vs = size_of(self.d, scope, e.value)
            t = self.ev(scope, e.value, vw, vs, env)
            if cnt < 1:
                raise VlogUnsupported('replication count < 1')
            t = z3.Concat(*([t] * cnt)) if cnt > 1 else t
            return _fit(t, w, signed)
        if isinstance(e, Unary):
            if e.op in ('~', '-', '+'):
                a = self.ev(scope, e.a, w, signed, env)
                return {'~': ~a, '-': -a, '+': a}[e.op]
            aw, asg = size_of(self.d, scope, e.a)
            a = self.ev(scope, e.a, aw, asg, env)
            if e.op == '!':
                c = z3.Not(_nonzero(a))
            elif e.op == '|':
                c = _nonzero(a)
            elif e.op == '~|':
                c = z3.Not(_nonzero(a))
            elif e.op == '&':
                c = a == z3.BitVecVal(-1, aw)
            elif e.op == '~&':
                c = a != z3.BitVecVal(-1, aw)
            elif e.op in ('^', '~^', '^~'):
                x = z3.Extract(0, 0, a)
                for i in range(1, aw):
                    x = x ^ z3.Extract(i, i, a)
                c = (x == 1) if e.op == '^' else (x == 0)
            else:
                raise VlogUnsupported('unary %s' % e.op)
            return _fit(_b2v(c), w, False)
        if isinstance(e, Binary):
            op = e.op
            if op in ('+', '-', '*', '/', '%', '&', '|', '^', '~^', '^~'):
                a = self.ev(scope, e.a, w, signed, env)
                b = self.ev(scope, e.b, w, signed, env)
                if op == '+':
                    self._wguard(z3.And(z3.BVAddNoOverflow(a, b, signed), z3.BVAddNoUnderflow(a, b)) if signed else z3.BVAddNoOverflow(a, b, False))
                    return a + b
                if op == '-':
                    self._wguard(z3.And(z3.BVSubNoOverflow(a, b), z3.BVSubNoUnderflow(a, b, True)) if signed else z3.BVSubNoUnderflow(a, b, False))
                    return a - b
                if op == '*':
                    self._wguard(z3.And(z3.BVMulNoOverflow(a, b, signed), z3.BVMulNoUnderflow(a, b)) if signed else z3.BVMulNoOverflow(a, b, False))
                    return a * b
                if op == '&': return a & b
                if op == '|': return a | b
                if op == '^': return a ^ b
                if op in ('~^', '^~'): return ~(a ^ b)
                self.div_guards.append(_nonzero(b))
                if op == '/':
                    return (a / b) if signed else z3.UDiv(a, b)
                return z3.SRem(a, b) if signed else z3.URem(a, b)
            if op in ('<<', '>>', '<<<', '>>>'):
                a = self.ev(scope, e.a, w, signed, env)
                bw, bs = size_of(self.d, scope, e.b)
                b = self.ev(scope, e.b, bw, bs, env)
                m = max(w, bw)
                a2, b2 = _fit(a, m, signed if op == '>>>' else False), _fit(b, m, False)
                if op in ('<<', '<<<'):
                    r = a2 << b2
                    rw = _fit(r, w, False)
                    self._wguard(z3.And(z3.ULT(b2, z3.BitVecVal(w, m)), z3.LShR(_fit(rw, m, False), b2) == _fit(_fit(a2, w, False), m, False)))
                elif op == '>>' or not signed:
                    r = z3.LShR(a2, b2)
                else:
                    r = a2 >> b2
                return _fit(r, w, False)
            if op in ('==', '!=', '<', '<=', '>', '>=', '===', '!=='):
                (wa, sa), (wb, sb) = size_of(self.d, scope, e.a), size_of(self.d, scope, e.b)
                m, sg = max(wa, wb), sa and sb
                a = self.ev(scope, e.a, m, sg, env)
                b = self.ev(scope, e.b, m, sg, env)
                if op in ('==', '==='): c = a == b
                elif op in ('!=', '!=='): c = a != b
                elif op == '<': c = (a < b) if sg else z3.ULT(a, b)
                elif op == '<=': c = (a <= b) if sg else z3.ULE(a, b)
                elif op == '>': c = (a > b) if sg else z3.UGT(a, b)
                else: c = (a >= b) if sg else z3.UGE(a, b)
                return _fit(_b2v(c), w, False)
            if op in ('&&', '||'):
                (wa, sa), (wb, sb) = size_of(self.d, scope, e.a), size_of(self.d, scope, e.b)
                a = _nonzero(self.ev(scope, e.a, wa, sa, env))
                self.pc.append(a if op == '&&' else z3.Not(a))       # what a short-circuiting source language evaluates
                try:
                    b = _nonzero(self.ev(scope, e.b, wb, sb, env))
                finally:
                    self.pc.pop()
                return _fit(_b2v(z3.And(a, b) if op == '&&' else z3.Or(a, b)), w, False)
            raise VlogUnsupported('binary %s' % op)
        if isinstance(e, Cond):
            cw, cs = size_of(self.d, scope, e.c)
            c = _nonzero(self.ev(scope, e.c, cw, cs, env))
            self.pc.append(c)
            try:
                ta = self.ev(scope, e.a, w, signed, env)
            finally:
                self.pc.pop()
            self.pc.append(z3.Not(c))
            try:
                tb = self.ev(scope, e.b, w, signed, env)
            finally:
                self.pc.pop()
            return z3.If(c, ta, tb)
        if isinstance(e, SysCall):
            aw, asg = size_of(self.d, scope, e.args[0])
            t = self.ev(scope, e.args[0], aw, asg, env)
            return _fit(t, w, signed)
        raise VlogUnsupported('expression %r' % e)

    def _wguard(self, g):
        self.width_guards.append(z3.Implies(z3.And(*self.pc), g) if self.pc else g)

    def _under(self, cond, fn):
        self.pc.append(cond)
        try:
            return fn()
        finally:
            self.pc.pop()

    def _base_lo(self, scope, base):
        if isinstance(base, Id) and scope.full(base.name) in self.d.nets:
            return self.d.nets[scope.full(base.name)].base_lo
        return 0

    def ev_self(self, scope, e, env=None):
        w, s = size_of(self.d, scope, e)
        return self.ev(scope, e, w, s, env)

    # -- statements ---------------------------------------------------------------------------------
    def exec(self, scope, st, env, nba, comb=False):
        if isinstance(st, Block):
            for s in st.stmts:
                self.exec(scope, s, env, nba, comb)
        elif isinstance(st, If):
            c = _nonzero(self.ev_self(scope, st.cond, env))
            e1, n1 = dict(env), dict(nba)
            self._under(c, lambda: self.exec(scope, st.then, e1, n1, comb))
            e2, n2 = dict(env), dict(nba)
            if st.els is not None:
                self._under(z3.Not(c), lambda: self.exec(scope, st.els, e2, n2, comb))
            self._merge(c, env, e1, e2)
            self._merge(c, nba, n1, n2)
        elif isinstance(st, Case):
            sizes = [size_of(self.d, scope, st.expr)] + [size_of(self.d, scope, l) for ls, _ in st.items for l in ls]
            m = max(x[0] for x in sizes)
            sg = all(x[1] for x in sizes)
            sel = self.ev(scope, st.expr, m, sg, env)
            branches = []
            for labels, body in st.items:
                c = z3.Or(*[sel == self.ev(scope, l, m, sg, env) for l in labels])
                branches.append((c, body))
            # first match wins: fold from the last
            res_e, res_n = dict(env), dict(nba)
            if st.default is not None:
                self._under(z3.Not(z3.Or(*[c for c, _ in branches])) if branches else z3.BoolVal(True),
                            lambda: self.exec(scope, st.default, res_e, res_n, comb))
            for bi, (c, body) in reversed(list(enumerate(branches))):
                e1, n1 = dict(env), dict(nba)
                first = z3.And(c, *[z3.Not(c0) for c0, _ in branches[:bi]])
                self._under(first, lambda: self.exec(scope, body, e1, n1, comb))
                me, mn = dict(env), dict(nba)
                self._merge(c, me, e1, res_e)
                self._merge(c, mn, n1, res_n)
                res_e, res_n = me, mn
            env.clear(); env.update(res_e)
            nba.clear(); nba.update(res_n)
        elif isinstance(st, (BAssign, NBAssign)):
            tgt = env if isinstance(st, BAssign) else nba
            lhs = st.lhs
            if isinstance(lhs, Id):
                full = scope.full(lhs.name)
                n = self.d.nets[full]
                ew, es = size_of(self.d, scope, st.rhs)
                t = self.ev(scope, st.rhs, max(ew, n.width), es, env)
                tgt[full] = _fit(t, n.width, False)
            elif isinstance(lhs, Index) and isinstance(lhs.base, Id) and self.d.nets[scope.full(lhs.base.name)].kind == 'mem':
                full = scope.full(lhs.base.name)
                n = self.d.nets[full]
                iw, isg = size_of(self.d, scope, lhs.index)
                idx = self.ev(scope, lhs.index, iw, isg, env)
                ew, es = size_of(self.d, scope, st.rhs)
                t = _fit(self.ev(scope, st.rhs, max(ew, n.width), es, env), n.width, False)
                for k in range(n.depth):
                    cell = '%s[%d]' % (full, k + n.mem_lo)
                    old = tgt[cell] if cell in tgt else self.state[cell]
                    tgt[cell] = z3.If(idx == z3.BitVecVal(k + n.mem_lo, iw), t, old)
            elif isinstance(lhs, (Index, PartSel)) and isinstance(lhs.base, Id):
                full = scope.full(lhs.base.name)
                n = self.d.nets[full]
                if isinstance(lhs, Index):
                    hi = lo = const_eval(lhs.index, scope.params) - n.base_lo
                else:
                    hi, lo = const_eval(lhs.hi, scope.params) - n.base_lo, const_eval(lhs.lo, scope.params) - n.base_lo
                w = hi - lo + 1
                ew, es = size_of(self.d, scope, st.rhs)
                t = _fit(self.ev(scope, st.rhs, max(ew, w), es, env), w, False)
                old = tgt[full] if full in tgt else (env[full] if full in env else self.state.get(full, z3.BitVecVal(0, n.width)))
                parts = []
                if hi < n.width - 1:
                    parts.append(z3.Extract(n.width - 1, hi + 1, old))
                parts.append(t)
                if lo > 0:
                    parts.append(z3.Extract(lo - 1, 0, old))
                tgt[full] = z3.Concat(*parts) if len(parts) > 1 else parts[0]
            else:
                raise VlogUnsupported('assignment target %r' % lhs)
        else:
            raise VlogUnsupported('statement %r' % st)

    def _merge(self, c, into, a, b):
        keys = set(a) | set(b)
        for k in keys:
            va = a.get(k)
            vb = b.get(k)
            if va is None:
                va = into.get(k, self._current(k))
            if vb is None:
                vb = into.get(k, self._current(k))
            into[k] = va if va.eq(vb) else z3.If(c, va, vb)

    def _current(self, full):
        if full in self.state:
            return self.state[full]
        return self.value(full)

    # -- outputs and the clock edge ------------------------------------------------------------------
    def outputs(self):
        return {o: self.value(o) for o in self.d.outputs}

    def clock_root(self, name):
        """follow plain identifier bindings up to a top-level input"""
        seen = set()
        while True:
            if name in seen:
                return None
            seen.add(name)
            n = self.d.nets.get(name)
            if n is None:
                return None
            if n.direction == 'input' and '.' not in name:
                return name
            if len(n.cont) == 1 and isinstance(n.cont[0][2], Id) and n.cont[0][0] == n.width - 1 and n.cont[0][1] == 0:
                name = n.cont[0][3].full(n.cont[0][2].name)
                continue
            return None

    def step(self, clock='clk'):
        """next state after a rising edge of the top-level clock input"""
        nxt = dict(self.state)
        for scope, clk, edge, body, targets in self.d.seq_blocks:
            root = self.clock_root(clk)
            if root != clock or edge != 'posedge':
                raise VlogUnsupported('always block clocked by %s %s (root %s): only the rising edge of the single system clock is modelled' % (edge, clk, root))
            env, nba = {}, {}
            self.exec(scope, body, env, nba)
            for k, v in env.items():
                nxt[k] = v
            for k, v in nba.items():
                nxt[k] = v
        # latch-type variables of always @(*) blocks keep their settled value
        for scope, body, targets in self.d.comb_blocks:
            for t in targets:
                if t in self.state:
                    nxt[t] = self.value(t)
        return nxt


def load(text, top=None, blackboxes=()):
    mods = parse(text)
    return elaborate(mods, top, blackboxes)
