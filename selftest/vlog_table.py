"""
Self-test table of the Verilog front end (engine E2): expression sizing/signedness, blocking vs
non-blocking order, initial values, memories.  Expected values are worked out from IEEE
1364-2005 sections 5.4, 5.5 and 9.2 (several are the standard's own examples).
Run: python -m selftest.vlog_table     (also executed at the start of ./check C01)
"""
import sys
import z3

from vlog import elab

CASES = []


def case(name, text, inputs, expect, cycles=0, per_cycle=None):
    CASES.append((name, text, inputs, expect, cycles, per_cycle))


case('carry into a wider target (5.4.1)', """
module t(input [3:0] a, input [3:0] b, output [7:0] r); assign r = a + b; endmodule""", {'a': 15, 'b': 1}, {'r': 16})

case('(a+b)>>1 loses the carry at operand width (5.4.2 example)', """
module t(input [3:0] a, input [3:0] b, output [3:0] r); assign r = (a + b) >> 1; endmodule""", {'a': 15, 'b': 1}, {'r': 0})

case('(a+b+0)>>1 keeps the carry: unsized 0 is 32 bit (5.4.2 example)', """
module t(input [3:0] a, input [3:0] b, output [3:0] r); assign r = (a + b + 0) >> 1; endmodule""", {'a': 15, 'b': 1}, {'r': 8})

case('target width propagates into the operands', """
module t(input [3:0] a, input [3:0] b, output [4:0] r); assign r = (a + b) >> 1; endmodule""", {'a': 15, 'b': 1}, {'r': 8})

case('$signed * $signed sign-extends into a wider target', """
module t(input [3:0] a, input [3:0] b, output [7:0] r); assign r = $signed(a) * $signed(b); endmodule""", {'a': 15, 'b': 2}, {'r': 0xFE})

case('one unsigned operand makes the expression unsigned (5.5.1)', """
module t(input [3:0] a, input [3:0] b, output [7:0] r); assign r = a * $signed(b); endmodule""", {'a': 15, 'b': 2}, {'r': 30})

case('unsized decimal is 32-bit signed', """
module t(input [3:0] a, output [7:0] r, output [7:0] s); assign r = -1; assign s = a - 5; endmodule""", {'a': 3}, {'r': 255, 's': 254})

case('comparison operands are sized to each other, result is 1 bit', """
module t(input [1:0] a, output r, output [3:0] s); assign r = (a == 1)? 1 : 0; assign s = (a == 3) + 4'd2; endmodule""",
     {'a': 3}, {'r': 0, 's': 3})

case('8-bit sum wraps in an 8-bit context, not in a 9-bit one', """
module t(input [7:0] a, output [7:0] r, output [8:0] s); assign r = a + 8'd1; assign s = a + 8'd1; endmodule""", {'a': 255}, {'r': 0, 's': 256})

case('concatenation and replication are unsigned and self-determined', """
module t(input [3:0] a, input [1:0] b, output [7:0] r, output [7:0] s); assign r = {a, b}; assign s = { {4{a[3]}}, a }; endmodule""",
     {'a': 9, 'b': 2}, {'r': 0b100110, 's': 0xF9})

case('multi-bit condition is true when non-zero', """
module t(input [1:0] a, input [3:0] x, input [3:0] y, output [3:0] r); assign r = (a)? x : y; endmodule""", {'a': 2, 'x': 5, 'y': 9}, {'r': 5})

case('shifts: >> is logical, >>> is arithmetic only for a signed operand', """
module t(input [3:0] a, output [3:0] r, output [3:0] s, output [3:0] u, output [3:0] v);
assign r = a >> 5; assign s = a >>> 1; assign u = $signed(a) >>> 1; assign v = a << 1; endmodule""",
     {'a': 8}, {'r': 0, 's': 4, 'u': 12, 'v': 0})

case('bit and part select, part-select targets', """
module t(input [7:0] a, output r, output [3:0] s, output [7:0] u); assign r = a[7]; assign s = a[6:3];
assign u[3:0] = a[7:4]; assign u[7:4] = 3; endmodule""", {'a': 0b10110101}, {'r': 1, 's': 0b0110, 'u': 0b00111011})

case('unsigned division and modulo truncate', """
module t(input [7:0] a, input [7:0] b, output [7:0] q, output [7:0] m); assign q = a / b; assign m = a % b; endmodule""",
     {'a': 200, 'b': 7}, {'q': 28, 'm': 4})

case('logical and bitwise operators', """
module t(input [3:0] a, input [3:0] b, output r, output s, output [3:0] u, output [3:0] v);
assign r = a && b; assign s = !a; assign u = ~(a | b); assign v = a ^ b; endmodule""", {'a': 4, 'b': 0}, {'r': 0, 's': 0, 'u': 11, 'v': 4})

case('non-blocking assignments sample before the edge (swap)', """
module t(input clk, output [3:0] x, output [3:0] y); reg [3:0] a = 3; reg [3:0] b = 9;
always @(posedge clk) begin a <= b; b <= a; end assign x = a; assign y = b; endmodule""", {}, {'x': 9, 'y': 3}, cycles=1)

case('blocking assignments to variables take effect in statement order', """
module t(input clk, input [3:0] d, output reg [7:0] r); integer v; initial begin v = 0; end
always @(posedge clk) begin v = d; v = v + 1; r <= v * 2; end endmodule""", {'d': 5}, {'r': 12}, cycles=1)

case('reg initialiser and initial block give the power-up value', """
module t(input clk, output [3:0] x, output reg [3:0] y); reg [3:0] a = 7; integer k; initial begin k = 2; end
always @(posedge clk) begin y <= k; end assign x = a; endmodule""", {}, {'x': 7, 'y': 0}, cycles=0)

case('if/else if chain and last non-blocking assignment wins', """
module t(input clk, input [1:0] s, output reg [3:0] r);
always @(posedge clk) begin r <= 1; if (s == 0) r <= 4; else if (s == 1) begin r <= 5; end else begin end end endmodule""",
     {'s': 2}, {'r': 1}, cycles=1)

case('case statement with default', """
module t(input clk, input [1:0] s, output reg [3:0] r);
always @(posedge clk) begin case (s) 0: r <= 4; 1, 2: r <= 6; default: r <= 9; endcase end endmodule""", {'s': 2}, {'r': 6}, cycles=1)

case('memory: read returns the old content in the cycle of a write', """
module t(input clk, input [1:0] wa, input [1:0] ra, input we, input [3:0] wd, output [3:0] rd);
reg [3:0] mem [0:3]; reg [3:0] rr; always @(posedge clk) begin if (we) mem[wa] <= wd; rr <= mem[ra]; end assign rd = rr; endmodule""",
     None, None, cycles=3, per_cycle=[({'wa': 1, 'ra': 1, 'we': 1, 'wd': 9}, {'rd': 0}), ({'wa': 1, 'ra': 1, 'we': 0, 'wd': 0}, {'rd': 9}),
                                      ({'wa': 2, 'ra': 2, 'we': 1, 'wd': 5}, {'rd': 0})])

case('hierarchy: named port binding, child register, implicit clock port', """
module top(input clk, input [3:0] a, output [3:0] o); wire [3:0] w_t; inc i_inc(.a(a),.r(w_t)); Reg4 i_r(.clk(clk),.d(w_t),.q(o)); endmodule
module inc(input [3:0] a, output [3:0] r); assign r = a + 1; endmodule
module Reg4(input clk, input [3:0] d, output [3:0] q); reg [3:0] rq = 2; always @(posedge clk) rq <= d; assign q = rq; endmodule""",
     None, None, cycles=2, per_cycle=[({'a': 4}, {'o': 5}), ({'a': 15}, {'o': 0})])

case('integer is a 32-bit signed variable; mixed with an unsigned wire the expression is unsigned', """
module t(input clk, input [2:0] size, output reg [7:0] r, output reg s); integer k;
always @(posedge clk) begin k = size - 1; r <= k; s <= (k < 0); end endmodule""", {'size': 0}, {'r': 255, 's': 1}, cycles=1)

case('always @(*) with incomplete assignment keeps the previous value (latch)', """
module t(input [3:0] d, input e, output reg [3:0] q); always @(*) begin if (e) begin q <= d; end end endmodule""",
     None, None, cycles=3, per_cycle=[({'d': 5, 'e': 1}, {'q': 5}), ({'d': 9, 'e': 0}, {'q': 5}), ({'d': 3, 'e': 1}, {'q': 3})])

case('reduction operators', """
module t(input [3:0] a, output r, output s, output u); assign r = &a; assign s = |a; assign u = ^a; endmodule""", {'a': 7}, {'r': 0, 's': 1, 'u': 1})


def run():
    bad = []
    for name, text, inputs, expect, cycles, per_cycle in CASES:
        try:
            d = elab.load(text)
            if d.fatal:
                bad.append((name, 'elaboration: ' + d.fatal))
                continue
            failed = [o for o in d.obligations if not o[1]]
            if failed:
                bad.append((name, 'obligation: %s' % (failed[0],)))
                continue
            widths = {n: d.nets[n].width for n in d.inputs}

            def mk(vals):
                ins = {n: z3.BitVecVal(vals.get(n, 0), w) for n, w in widths.items()}
                return ins
            state = None
            if per_cycle:
                for k, (vals, exp) in enumerate(per_cycle):
                    sim = elab.Sim(d, mk(vals), state)
                    state = sim.step() if d.seq_blocks else sim.step()
                    state = {a: z3.simplify(b) for a, b in state.items()}
                    outs = elab.Sim(d, mk(vals), state).outputs()
                    for o, v in exp.items():
                        g = z3.simplify(outs[o]).as_long()
                        if g != v:
                            bad.append((name, 'cycle %d: %s = %d, expected %d' % (k + 1, o, g, v)))
            else:
                for k in range(cycles):
                    state = elab.Sim(d, mk(inputs), state).step()
                    state = {a: z3.simplify(b) for a, b in state.items()}
                outs = elab.Sim(d, mk(inputs), state).outputs()
                for o, v in expect.items():
                    g = z3.simplify(outs[o]).as_long()
                    if g != v:
                        bad.append((name, '%s = %d, expected %d' % (o, g, v)))
        except Exception as e:
            bad.append((name, 'exception %r' % e))
    return len(CASES), bad


if __name__ == '__main__':
    n, bad = run()
    for b in bad:
        print('FAIL', b)
    print('%d cases, %d failures' % (n, len(bad)))
    sys.exit(1 if bad else 0)
