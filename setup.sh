#!/bin/sh
# Offline setup: overlay venv on top of /venv (py4hw's own interpreter + numpy/tkinter),
# plus z3-solver / cvc5 / crosshair-tool from the local wheelhouse.  Idempotent.
set -e
cd "$(dirname "$0")"
V=.venv
if [ ! -x $V/bin/python ] || ! $V/bin/python -c "import z3, py4hw" >/dev/null 2>&1; then
  rm -rf $V
  /venv/bin/python -m venv $V
  SP=$($V/bin/python -c "import sysconfig; print(sysconfig.get_paths()['purelib'])")
  echo "import site; site.addsitedir('/venv/lib/python3.12/site-packages')" > $SP/_base.pth
  PIP_NO_INDEX=1 $V/bin/pip install -q --no-index --find-links /opt/veriftools/wheels z3-solver cvc5 crosshair-tool >/dev/null 2>&1 || \
  PIP_NO_INDEX=1 $V/bin/pip install -q --no-index --find-links /opt/veriftools/wheels z3-solver
fi
$V/bin/python -c "import z3, py4hw; print('setup ok: z3', z3.get_version_string(), 'py4hw', py4hw.__file__)"
