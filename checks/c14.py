"""
C14 -- fixed-point blocks agree with exact scaled-integer arithmetic.
"""
import itertools
import sys

import z3

from . import common
from .comb import comb_task, zx, sx

import py4hw
from py4hw.logic.arithmetic_fxp import FixedPointAdd, FixedPointSub, FixedPointSign, FixedPointMult
from py4hw.logic.relational import FixedPointComparator

PROP = 'C14'


def b1(c):
    return z3.If(c, z3.BitVecVal(1, 1), z3.BitVecVal(0, 1))


def formats(maxw):
    for i in range(0, maxw):
        for f in range(0, maxw):
            if 1 <= 1 + i + f <= maxw and i + f >= 1:
                yield (1, i, f)


def cfgs(tier):
    quick = tier == 'quick'
    maxw = 8 if quick else 12

    def addsub(cls, fmt, op):
        w = sum(fmt)

        def build(s):
            a, b, r = s.wire('a', w), s.wire('b', w), s.wire('r', w)
            cls(s, 'dut', a, fmt, b, fmt, r, fmt)
            return {'a': a, 'b': b}, {'r': r}
        return {'build': build, 'spec': lambda V: {'r': op(V['a'], V['b'])}}

    def sign(fmt):
        w = sum(fmt)

        def build(s):
            a, r = s.wire('a', w), s.wire('s', 1)
            FixedPointSign(s, 'dut', a, fmt, r)
            return {'a': a}, {'s': r}
        return {'build': build, 'spec': lambda V: {'s': z3.Extract(w - 1, w - 1, V['a'])}}

    def cmp_(fmt):
        w = sum(fmt)

        def build(s):
            a, b = s.wire('a', w), s.wire('b', w)
            o = {k: s.wire(k, 1) for k in ('gt', 'eq', 'lt')}
            FixedPointComparator(s, 'dut', a, fmt, b, fmt, o['gt'], o['eq'], o['lt'])
            return {'a': a, 'b': b}, o

        def spec(V):
            return {'gt': b1(V['a'] > V['b']), 'eq': b1(V['a'] == V['b']), 'lt': b1(V['a'] < V['b'])}

        def assume(V):
            dd = sx(V['a'], w + 1) - sx(V['b'], w + 1)
            return z3.And(dd >= -(1 << (w - 1)), dd <= (1 << (w - 1)) - 1)
        return {'build': build, 'spec': spec, 'assume': assume}

    def mult(af, bf, rf):
        wa, wb, wr = sum(af), sum(bf), sum(rf)
        low = af[2] + bf[2] - rf[2]

        def build(s):
            a, b, r = s.wire('a', wa), s.wire('b', wb), s.wire('r', wr)
            FixedPointMult(s, 'dut', a, af, b, bf, r, rf)
            return {'a': a, 'b': b}, {'r': r}

        def spec(V):
            n = max(wa + wb, low + wr) + 2
            P = sx(V['a'], n) * sx(V['b'], n)             # exact signed product
            return {'r': z3.Extract(low + wr - 1, low, P)}  # floor(P / 2**low) mod 2**wr
        return {'build': build, 'spec': spec}

    for fmt in formats(maxw):
        nm = '%d.%d.%d' % fmt
        yield 'FixedPointAdd %s' % nm, addsub(FixedPointAdd, fmt, lambda a, b: a + b)
        yield 'FixedPointSub %s' % nm, addsub(FixedPointSub, fmt, lambda a, b: a - b)
        yield 'FixedPointSign %s' % nm, sign(fmt)
        yield 'FixedPointComparator %s' % nm, cmp_(fmt)
    # wide formats ("every signed fixed-point format"): 16, 32, 64 bits and beyond one machine word; the multiplier only where the
    # product node is shared with the reference (probed under the quick budget)
    for fmt in (((1, 7, 8), (1, 15, 16), (1, 31, 32), (1, 0, 63)) if quick else ((1, 7, 8), (1, 15, 16), (1, 31, 32), (1, 0, 63), (1, 40, 30), (1, 63, 64))):
        nm = '%d.%d.%d' % fmt
        yield 'FixedPointAdd %s' % nm, addsub(FixedPointAdd, fmt, lambda a, b: a + b)
        yield 'FixedPointSub %s' % nm, addsub(FixedPointSub, fmt, lambda a, b: a - b)
        yield 'FixedPointSign %s' % nm, sign(fmt)
        yield 'FixedPointComparator %s' % nm, cmp_(fmt)
    for af, bf, rf in (() if quick else (((1, 7, 8), (1, 7, 8), (1, 7, 8)), ((1, 7, 8), (1, 7, 8), (1, 15, 16)))):      # mixed 16-bit formats: probed, the second evaluation does not finish in the budget
        yield 'FixedPointMult %d.%d.%d x %d.%d.%d -> %d.%d.%d' % (af + bf + rf), mult(af, bf, rf)
    fl = list(formats(6 if quick else 8))
    import random
    rnd = random.Random(3)
    combos = []
    for af in fl:
        for bf in fl:
            for rf in fl:
                low = af[2] + bf[2] - rf[2]
                if low < 0:
                    continue
                combos.append((af, bf, rf))
    keep = [c for c in combos if c[0] == c[1] == c[2]]
    rest = [c for c in combos if c not in keep]
    rnd.shuffle(rest)
    for af, bf, rf in keep + rest[:(150 if quick else 1500)]:
        fits = (af[2] + bf[2] - rf[2]) + sum(rf) <= sum(af) + sum(bf)
        yield 'FixedPointMult %d.%d.%d x %d.%d.%d -> %d.%d.%d%s' % (af + bf + rf + ('' if fits else ' (window beyond the 2w-bit product)',)), mult(af, bf, rf)


def replay(rec):
    import checks.c07 as c7
    saved = c7.cfgs
    c7.cfgs = cfgs
    try:
        return c7.replay(rec)
    finally:
        c7.cfgs = saved


def main(argv=None):
    args = common.parse_args(PROP, argv)
    tasks = [(name, comb_task, cfg) for name, cfg in cfgs(args.tier)]
    return common.run_check(
        PROP, 'model_checking', tasks, args, design_ref='DESIGN.md section 3 (C14)',
        technique='symbolic execution of the real fixed-point blocks on z3 bit-vector symbols; QF_BV queries against exact scaled-integer arithmetic',
        assumptions=['comparator: the signed difference of the operands is representable in the format (as the statement says)',
                     'multiplier: result = floor(exact signed product / 2**(fa+fb-fr)) mod 2**width(r); formats with fr > fa+fb are outside (the block raises on a negative shift)'],
        bounds={'formats': 'sign=1, total width <= 8 (quick) / 12 (thorough); multiplier operand/result formats of width <= 6 / 8 (all equal-format triples + a seeded sample of 150 / 1500 mixed triples)'},
        trusted_base=['z3', 'symx operator semantics', 'reference functions in checks/c14.py'], replay_fn=replay)


if __name__ == '__main__':
    sys.exit(main())
