"""
C12 -- number-format helpers are bit-exact and arithmetically exact.

The real helper functions of py4hw/helper.py are executed on symbolic integers (E1); loops that
depend on a symbolic mantissa fork on every feasible path (trailing zero count, normalisation
distance), exponent fields are enumerated.  Per path the solver proves the property under the
path condition.
  * IntegerHelper.signed_to_c2 / c2_to_signed / signExtend: value AND widths symbolic
  * FixedPoint.add / sub / mult on raw encodings
  * FPNum: from_ieee754_{hp,sp,dp} -> convert(fmt) round trip; add/sub/mul exact as rationals;
    compare as rational order
  * FloatingPointHelper bit pattern <-> Python float: see checks/c12 float section (SymFloat)
"""
import itertools
import random
import sys

import z3

from . import common
from .comb import quiet, zx, sx
from symx import core
from symx.core import ctx, run_paths, pc_cond, SymInt, SymBool, Unsupported

import py4hw
from py4hw.helper import IntegerHelper, FixedPoint, FPNum
import py4hw.helper as H
from symx import shims

shims.install(H, ('isinstance',))        # FPNum.adjust_semp asserts isinstance(self.m, int)

PROP = 'C12'


def zb(c):
    if isinstance(c, bool):
        return z3.BoolVal(c)
    if isinstance(c, SymBool):
        return c.b
    return c


def ne(a, b):
    """z3 Bool: numeric values a and b differ"""
    r = (a != b)
    return zb(r)


# ---------------------------------------------------------------------------------------------------
def c2_task(p, cfg, rec):
    rec.update(['py4hw.helper.IntegerHelper.signed_to_c2', 'py4hw.helper.IntegerHelper.c2_to_signed', 'py4hw.helper.signExtend'])
    W = cfg['maxw']
    w, wv = core.fresh_range('w', 1, W)
    x, xv = core.fresh('x', W + 2)               # any integer in [-2**(W+1), 2**(W+1))
    v = x - (1 << (W + 1))
    vars_ = {'w': wv, 'x': xv}
    # --- c2_to_signed(signed_to_c2(v, w), w) == v for -2**(w-1) <= v < 2**(w-1)
    res = run_paths(lambda: IntegerHelper.c2_to_signed(IntegerHelper.signed_to_c2(v, w), w))
    half = 1 << (w - 1)
    inr = z3.And(zb(v >= -half), zb(v < half))
    for k, r in enumerate(res):
        if r.exc is not None:
            p.structural('c2 round trip path %d completes' % k, False, detail={'exception': repr(r.exc)})
            continue

        def replay(values, k=k):
            vv, ww = values['x'] - (1 << (W + 1)), values['w']
            g = IntegerHelper.c2_to_signed(IntegerHelper.signed_to_c2(vv, ww), ww)
            return None if g == vv else {'v': vv, 'w': ww, 'got': g}
        p.prove('c2_to_signed(signed_to_c2(v,w),w) == v for representable v (path %d/%d)' % (k + 1, len(res)),
                z3.And(pc_cond(r.pc), inr, ne(r.ret, v)), inputs=vars_, replay=replay)
    # --- signed_to_c2 agrees with the arithmetic definition v mod 2**w, result in range
    res = run_paths(lambda: IntegerHelper.signed_to_c2(v, w))
    for k, r in enumerate(res):
        two_w = 1 << w
        c = z3.Or(zb(r.ret < 0), zb(r.ret >= two_w), ne((r.ret - v) % two_w, 0))

        def replay(values):
            vv, ww = values['x'] - (1 << (W + 1)), values['w']
            g = IntegerHelper.signed_to_c2(vv, ww)
            return None if g == vv % (1 << ww) else {'v': vv, 'w': ww, 'got': g}
        p.prove('signed_to_c2(v,w) == v mod 2**w (path %d/%d)' % (k + 1, len(res)), z3.And(pc_cond(r.pc), c), inputs=vars_, replay=replay)
    # --- c2_to_signed: result in [-2**(w-1), 2**(w-1)) and congruent to the encoding
    u, uv = core.fresh('u', W)
    vars2 = {'w': wv, 'u': uv}
    res = run_paths(lambda: IntegerHelper.c2_to_signed(u, w))
    for k, r in enumerate(res):
        c = z3.Or(zb(r.ret < -half), zb(r.ret >= half), ne((r.ret - u) % (1 << w), 0))

        def replay(values):
            g = IntegerHelper.c2_to_signed(values['u'], values['w'])
            ww = values['w']
            ok = -(1 << (ww - 1)) <= g < (1 << (ww - 1)) and (g - values['u']) % (1 << ww) == 0
            return None if ok else {'u': values['u'], 'w': ww, 'got': g}
        p.prove('c2_to_signed(u,w) is the signed reading of the low w bits (path %d/%d)' % (k + 1, len(res)),
                z3.And(pc_cond(r.pc), c), inputs=vars2, replay=replay)
    # --- signExtend(v, w, nw): two's complement extension
    nw, nwv = core.fresh_range('nw', 1, 2 * W)
    vars3 = {'w': wv, 'u': uv, 'nw': nwv}
    ctx.assume(zb(nw >= w))
    p.assumptions = list(ctx.assumptions)
    res = run_paths(lambda: H.signExtend(u, w, nw))
    low = u % (1 << w)
    sgn = IntegerHelper_c2(low, w)
    for k, r in enumerate(res):
        if r.exc is not None:
            p.structural('signExtend path %d completes' % k, False, detail={'exception': repr(r.exc)})
            continue
        c = ne(r.ret, sgn % (1 << nw))

        def replay(values):
            g = H.signExtend(values['u'], values['w'], values['nw'])
            lw = values['u'] % (1 << values['w'])
            sv = lw - (1 << values['w']) if lw >> (values['w'] - 1) else lw
            e = sv % (1 << values['nw'])
            return None if g == e else {'u': values['u'], 'w': values['w'], 'nw': values['nw'], 'got': g, 'expected': e}
        p.prove('signExtend(v,w,nw) == signed(v mod 2**w) mod 2**nw (path %d/%d)' % (k + 1, len(res)), z3.And(pc_cond(r.pc), c),
                inputs=vars3, replay=replay)
    p.res['states'] += 1


def IntegerHelper_c2(low, w):
    """reference: signed reading of a w-bit value (independent of the helper)"""
    half = 1 << (w - 1)
    return core.ite(zb(low >= half), low - (1 << w), low)


# ---------------------------------------------------------------------------------------------------
def fixedpoint_task(p, cfg, rec):
    sw, iw, fw = cfg['fmt']
    w = sw + iw + fw
    rec.update(['py4hw.helper.FixedPoint.add', 'py4hw.helper.FixedPoint.sub', 'py4hw.helper.FixedPoint.mult', 'py4hw.helper.signExtend'])
    a, av = core.fresh('a', w)
    b, bv = core.fresh('b', w)
    vars_ = {'a': av, 'b': bv}

    def mk(x):
        return FixedPoint.fromRawValue(sw, iw, fw, x)
    A, B = zx(av, 2 * w + 2), zx(bv, 2 * w + 2)
    SA, SB = sx(av, 2 * w + 2), sx(bv, 2 * w + 2)
    spec = {'add': z3.Extract(w - 1, 0, A + B), 'sub': z3.Extract(w - 1, 0, A - B),
            'mult': z3.Extract(w - 1 + fw, fw, SA * SB)}          # truncated signed product
    for op in cfg.get('ops', ('add', 'sub', 'mult')):
        res = run_paths(lambda: getattr(mk(a), op)(mk(b)).v)
        for k, r in enumerate(res):
            if r.exc is not None:
                p.structural('FixedPoint.%s path %d completes' % (op, k), False, detail={'exception': repr(r.exc)})
                continue
            got = core.to_term(r.ret, w + 1)
            lo, hi = core._bounds(r.ret)
            c = got != z3.ZeroExt(1, spec[op])
            if lo < 0 or hi >= (1 << w):
                c = z3.Or(c, zb(r.ret < 0), zb(r.ret >= (1 << w)))

            def replay(values, op=op):
                x, y = values['a'], values['b']
                g = getattr(mk(x), op)(mk(y)).v
                sxv = lambda t: t - (1 << w) if t >> (w - 1) else t
                e = {'add': (x + y) % (1 << w), 'sub': (x - y) % (1 << w), 'mult': ((sxv(x) * sxv(y)) >> fw) % (1 << w)}[op]
                return None if g == e else {'a': x, 'b': y, 'op': op, 'got': g, 'expected': e}
            p.prove('FixedPoint(%d,%d,%d).%s on raw encodings (path %d/%d)' % (sw, iw, fw, op, k + 1, len(res)), z3.And(pc_cond(r.pc), c),
                    inputs=vars_, replay=replay, timeout_s=(60 if p.tier == 'quick' else 600))
    p.res['states'] += 1


# ---------------------------------------------------------------------------------------------------
FMT = {'hp': (5, 10, 15), 'sp': (8, 23, 127), 'dp': (11, 52, 1023)}


def roundtrip_task(p, cfg, rec):
    """from_ieee754_<fmt>(pattern).convert(fmt) == pattern for one exponent field, both signs, symbolic mantissa"""
    fmt, e = cfg['fmt'], cfg['e']
    ew, mw, bias = FMT[fmt]
    rec.update(['py4hw.helper.FPNum.from_ieee754_' + fmt, 'py4hw.helper.FPNum.convert', 'py4hw.helper.FPNum.adjust_semp'])
    emax = (1 << ew) - 1
    for s in (0, 1):
        m, mv = core.fresh('m', mw)
        if e == emax:
            ctx.set_assumptions([mv == 0])            # infinities (NaN payloads excepted)
        else:
            ctx.set_assumptions([])
        p.assumptions = list(ctx.assumptions)
        pat = (s << (ew + mw)) | (e << mw) | m
        with quiet():
            res = run_paths(lambda: FPNum(pat, fmt).convert(fmt))
        p.res['transitions'] += len(res)
        for k, r in enumerate(res):
            if r.exc is not None:
                rr, mm = p.satisfiable(r.pc)
                vals = {'m': common.model_value(mm, mv)} if mm is not None else {}
                p.structural('round trip %s s=%d e=%d path %d completes' % (fmt, s, e, k), False, detail={'exception': repr(r.exc), 'example': vals})
                continue

            def replay(values, s=s):
                pt = (s << (ew + mw)) | (e << mw) | values['m']
                with quiet():
                    g = FPNum(pt, fmt).convert(fmt)
                return None if g == pt else {'pattern': hex(pt), 'got': hex(g), 'format': fmt}
            p.prove('%s pattern s=%d e=%d -> FPNum -> convert(%s) is the identity (path %d/%d)' % (fmt, s, e, fmt, k + 1, len(res)),
                    z3.And(pc_cond(r.pc), ne(r.ret, pat)), inputs={'m': mv}, replay=replay)
    p.res['states'] += 1


def fpnum_of(fmt, s, e, m):
    ew, mw, bias = FMT[fmt]
    return FPNum((s << (ew + mw)) | (e << mw) | m, fmt)


def rational_cross(n):
    """(numerator sign*m, scale) with value = s*m*2**e/p ; returns (signed mantissa, e, p)"""
    return n.s * n.m, n.e, n.p


def arith_task(p, cfg, rec):
    """add/sub/mul exact as rationals, compare as rational order, for one pair of exponent fields"""
    fmt, ea, eb = cfg['fmt'], cfg['ea'], cfg['eb']
    ew, mw, bias = FMT[fmt]
    rec.update(['py4hw.helper.FPNum.add', 'py4hw.helper.FPNum.sub', 'py4hw.helper.FPNum.mul', 'py4hw.helper.FPNum.compare',
                'py4hw.helper.FPNum.adjust_semp', 'py4hw.helper.FPNum.increase_exponent', 'py4hw.helper.FPNum.increase_precision'])
    if cfg.get('mbits'):
        # reduced variant for wide formats in the quick tier: only the top `hi` and the bottom `lo` mantissa bits are free
        hi, lo = cfg['mbits']
        ah, ahv = core.fresh('ma_hi', hi)
        al, alv = core.fresh('ma_lo', lo)
        bh, bhv = core.fresh('mb_hi', hi)
        bl, blv = core.fresh('mb_lo', lo)
        ma, mb = (ah << (mw - hi)) + al, (bh << (mw - hi)) + bl
        vars_ = {'ma_hi': ahv, 'ma_lo': alv, 'mb_hi': bhv, 'mb_lo': blv}
    else:
        ma, mav = core.fresh('ma', mw)
        mb, mbv = core.fresh('mb', mw)
        vars_ = {'ma': mav, 'mb': mbv}
    for sa, sb in ((0, 0), (0, 1), (1, 0), (1, 1)):
        def mkab():
            return fpnum_of(fmt, sa, ea, ma), fpnum_of(fmt, sb, eb, mb)
        for op in ('add', 'sub', 'mul', 'compare'):
            def run():
                a, b = mkab()
                r = getattr(a, op)(b)
                if op == 'compare':
                    return (r, (a.s, a.m), a.e, a.p, (b.s, b.m), b.e, b.p)
                return ((r.s, r.m), r.e, r.p, (a.s, a.m), a.e, a.p, (b.s, b.m), b.e, b.p)
            with quiet():
                res = run_paths(run)
            p.res['transitions'] += len(res)
            viols = []
            for k, r in enumerate(res):
                if r.exc is not None:
                    rr, mm = p.satisfiable(r.pc)
                    vals = {n: common.model_value(mm, v) for n, v in vars_.items()} if mm is not None else {}
                    p.structural('%s %s path %d completes' % (fmt, op, k), False, detail={'exception': repr(r.exc), 'example': vals, 'signs': [sa, sb], 'e': [ea, eb]})
                    continue
                t = r.ret
                sg = lambda pr: pr[1] if pr[0] == 1 else -pr[1]          # signs are concrete on every path
                if op == 'compare':
                    cres, am, ae, ap, bm, be, bp = t
                    am, bm = sg(am), sg(bm)
                    K = max(0, -ae, -be)
                    lhs = am * (1 << (ae + K)) * bp
                    rhs = bm * (1 << (be + K)) * ap
                    exp = core.ite(zb(lhs > rhs), 1, core.ite(zb(lhs < rhs), -1, 0))
                    c = ne(cres, exp)
                else:
                    rm, re, rp, am, ae, ap, bm, be, bp = t
                    if isinstance(rp, int) and rp == 0:
                        p.structural('%s %s of finite operands is finite' % (fmt, op), False, detail={'signs': [sa, sb], 'e': [ea, eb]})
                        continue
                    K = max(0, -ae, -be, -re)
                    if op == 'mul':
                        # the product of the two mantissas is built exactly like the implementation builds it
                        # (same operands, same order), so both sides share one multiplication node
                        K2 = max(0, -re, -(ae + be))
                        prod = am[1] * bm[1]
                        prod = prod if am[0] * bm[0] == 1 else -prod
                        lhs = sg(rm) * (1 << (re + K2)) * (ap * bp)
                        rhs = prod * (1 << (ae + be + K2)) * rp
                        viols.append(z3.And(pc_cond(r.pc), ne(lhs, rhs)))
                        continue
                    rm, am, bm = sg(rm), sg(am), sg(bm)
                    if False:
                        pass
                    else:
                        sgn = 1 if op == 'add' else -1
                        lhs = rm * (1 << (re + K)) * (ap * bp)
                        rhs = (am * (1 << (ae + K)) * bp + sgn * bm * (1 << (be + K)) * ap) * rp
                    c = ne(lhs, rhs)
                viols.append(z3.And(pc_cond(r.pc), c))

            def replay(values, op=op, sa=sa, sb=sb):
                from fractions import Fraction
                if cfg.get('mbits'):
                    values = dict(values, ma=(values['ma_hi'] << (mw - cfg['mbits'][0])) + values['ma_lo'],
                                  mb=(values['mb_hi'] << (mw - cfg['mbits'][0])) + values['mb_lo'])
                with quiet():
                    a, b = fpnum_of(fmt, sa, ea, values['ma']), fpnum_of(fmt, sb, eb, values['mb'])
                    va = Fraction(a.s * a.m, a.p) * Fraction(2) ** a.e
                    vb = Fraction(b.s * b.m, b.p) * Fraction(2) ** b.e
                    r2 = getattr(a, op)(b)
                if op == 'compare':
                    e = (va > vb) - (va < vb)
                    return None if r2 == e else {'a': float(va), 'b': float(vb), 'compare': r2, 'expected': e}
                vr = Fraction(r2.s * r2.m, r2.p) * Fraction(2) ** r2.e if r2.p else None
                e = {'add': va + vb, 'sub': va - vb, 'mul': va * vb}[op]
                return None if vr == e else {'a': str(va), 'b': str(vb), 'op': op, 'got': str(vr), 'expected': str(e)}
            p.prove_many('%s %s exact (signs %d%d, exponent fields %d,%d), one query per path' % (fmt, op, sa, sb, ea, eb), viols,
                         inputs=vars_, replay=replay, timeout_s=60)
    p.res['states'] += 1


CHAINS = {
    '(a*b)*(a*b)': lambda a, b: a.mul(b).mul(a.mul(b)),
    '((a*a)*(a*a))*b': lambda a, b: a.mul(a).mul(a.mul(a)).mul(b),
    '(a+b)*(a-b)': lambda a, b: a.add(b).mul(a.sub(b)),
    '((a*b)+a)-b': lambda a, b: a.mul(b).add(a).sub(b),
    '(a*b)-(b*a)': lambda a, b: a.mul(b).sub(b.mul(a)),
}


def chain_task(p, cfg, rec):
    """chained FPNum operations (the precision of intermediate results grows beyond what one operation on format
    operands produces): operands are drawn by symbolic selectors from a table of boundary mantissas and exponent fields,
    every selector combination is explored, each path is concrete and compared with exact rational arithmetic"""
    from fractions import Fraction
    fmt, chain = cfg['fmt'], cfg['chain']
    ew, mw, bias = FMT[fmt]
    mants = sorted(set([0, 1, (1 << mw) - 1, (1 << mw) - 2, 1 << (mw - 1), (1 << (mw - 1)) + 1, int('01' * mw, 2) & ((1 << mw) - 1)]))
    exps = sorted(set([1, bias - 1, bias, bias + 2, (1 << ew) - 2]))
    rec.update(['py4hw.helper.FPNum.add', 'py4hw.helper.FPNum.sub', 'py4hw.helper.FPNum.mul'])
    sel = {k: core.fresh_range(k, 0, n - 1) for k, n in (('ma', len(mants)), ('mb', len(mants)), ('ea', len(exps)), ('eb', len(exps)), ('sb', 2))}
    p.assumptions = list(ctx.assumptions)

    def val(x):
        return Fraction(x.s * x.m, x.p) * Fraction(2) ** x.e

    def scenario():
        ma, mb = mants[int(sel['ma'][0])], mants[int(sel['mb'][0])]
        ea, eb = exps[int(sel['ea'][0])], exps[int(sel['eb'][0])]
        sb = int(sel['sb'][0])
        with quiet():
            a, b = fpnum_of(fmt, 0, ea, ma), fpnum_of(fmt, sb, eb, mb)
            r = CHAINS[chain](a, b)
            ref = CHAINS[chain](_Exact(val(a)), _Exact(val(b))).v
        return (ma, mb, ea, eb, sb), (val(r) if r.p else None), ref
    res = run_paths(scenario)
    total = len(mants) ** 2 * len(exps) ** 2 * 2
    p.res['states'] += 1
    p.res['transitions'] += len(res)
    p.structural('every selector combination explored (%d)' % total, len([r for r in res if r.exc is None]) == total,
                 detail={'paths': len(res), 'exceptions': [repr(r.exc) for r in res if r.exc is not None][:3]})
    bad = [{'operands (ma, mb, ea, eb, sign b)': r.ret[0], 'got': str(r.ret[1]), 'exact': str(r.ret[2])} for r in res if r.exc is None and r.ret[1] != r.ret[2]]
    p.structural('%s %s is exact for every combination' % (fmt, chain), not bad, detail={'failing': bad[:3], 'count': len(bad)})


class _Exact:
    """rational stand-in with FPNum's method names"""
    def __init__(self, v):
        self.v = v

    def add(self, o):
        return _Exact(self.v + o.v)

    def sub(self, o):
        return _Exact(self.v - o.v)

    def mul(self, o):
        return _Exact(self.v * o.v)


def zero_task(p, cfg, rec):
    """compare() when one operand is a zero, however the zero was produced (pattern of either sign, float 0.0,
    exact cancellation a - a): zero orders below every positive and above every negative value, equal to any zero"""
    fmt, eb = cfg['fmt'], cfg['eb']
    ew, mw, bias = FMT[fmt]
    rec.update(['py4hw.helper.FPNum.compare', 'py4hw.helper.FPNum.sub', 'py4hw.helper.FPNum.add', 'py4hw.helper.FPNum.adjust_semp'])
    mb, mbv = core.fresh('mb', mw)
    ma, mav = core.fresh('ma', 3)               # the cancelled operand: 3 symbolic mantissa bits are enough to vary its normal form
    vars_ = {'ma': mav, 'mb': mbv}
    routes = {
        'pattern +0': lambda: fpnum_of(fmt, 0, 0, 0),
        'pattern -0': lambda: fpnum_of(fmt, 1, 0, 0),
        'float 0.0': lambda: FPNum(0.0),
        'a - a (cancellation at the exponent of b)': lambda: fpnum_of(fmt, 0, eb, ma).sub(fpnum_of(fmt, 0, eb, ma)),
        'a + (-a) (cancellation at a large exponent)': lambda: fpnum_of(fmt, 1, (1 << ew) - 2, ma).add(fpnum_of(fmt, 0, (1 << ew) - 2, ma)),
    }
    for rname, mkz in routes.items():
        for sb in (0, 1):
            for swap in (False, True):
                def run():
                    z = mkz()
                    b = fpnum_of(fmt, sb, eb, mb)
                    r = b.compare(z) if swap else z.compare(b)
                    return (r, b.m)
                with quiet():
                    res = run_paths(run)
                p.res['transitions'] += len(res)
                viols = []
                for k, r in enumerate(res):
                    if r.exc is not None:
                        p.structural('compare with zero (%s) path %d completes' % (rname, k), False, detail={'exception': repr(r.exc)})
                        continue
                    cres, bm = r.ret
                    bz = zb(bm == 0)
                    want_nz = (1 if sb == 1 else -1) * (-1 if swap else 1)      # zero vs positive b -> -1 ; vs negative b -> +1
                    exp = core.ite(bz, 0, want_nz)
                    viols.append(z3.And(pc_cond(r.pc), ne(cres, exp)))

                def replay(values, rname=rname, sb=sb, swap=swap, mkz=mkz):
                    from fractions import Fraction
                    with quiet():
                        zc = {'pattern +0': lambda: fpnum_of(fmt, 0, 0, 0), 'pattern -0': lambda: fpnum_of(fmt, 1, 0, 0), 'float 0.0': lambda: FPNum(0.0),
                              'a - a (cancellation at the exponent of b)': lambda: fpnum_of(fmt, 0, eb, values['ma']).sub(fpnum_of(fmt, 0, eb, values['ma'])),
                              'a + (-a) (cancellation at a large exponent)': lambda: fpnum_of(fmt, 1, (1 << ew) - 2, values['ma']).add(fpnum_of(fmt, 0, (1 << ew) - 2, values['ma']))}[rname]()
                        b = fpnum_of(fmt, sb, eb, values['mb'])
                        vb = Fraction(b.s * b.m, b.p) * Fraction(2) ** b.e if b.p else None
                        got = b.compare(zc) if swap else zc.compare(b)
                    e = (0 > vb) - (0 < vb)
                    e = -e if swap else e
                    return None if got == e else {'zero made by': rname, 'b': float(vb), 'swapped': swap, 'compare': got, 'expected': e}
                p.prove_many('%s: compare(%s) with zero made by %s, b sign %d exponent field %d' % (fmt, 'b, zero' if swap else 'zero, b', rname, sb, eb),
                             viols, inputs=vars_, replay=replay, timeout_s=60)
    p.res['states'] += 1


def tasks_for(tier, seed):
    quick = tier == 'quick'
    t = [('two\'s complement helpers, widths 1..%d symbolic' % (16 if quick else 32), c2_task, {'maxw': 16 if quick else 32})]
    maxw = 8 if quick else 12
    for iw in range(1, maxw):              # the FixedPoint constructor refuses iw == 0 (1 << (iw-1))
        for fw in range(0, maxw):
            if 2 <= 1 + iw + fw <= maxw:
                t.append(('FixedPoint (1,%d,%d)' % (iw, fw), fixedpoint_task, {'fmt': (1, iw, fw)}))
    # formats without a sign bit: sums and differences of the raw encodings modulo 2**w (the product of such formats is not claimed)
    for iw, fw in ((1, 0), (2, 1), (4, 4), (3, 0), (1, 5)) if quick else ((1, 0), (2, 1), (4, 4), (3, 0), (1, 5), (8, 8), (2, 9), (6, 1)):
        t.append(('FixedPoint (0,%d,%d) add/sub' % (iw, fw), fixedpoint_task, {'fmt': (0, iw, fw), 'ops': ('add', 'sub')}))
    rnd = random.Random(seed)
    for fmt in ('hp', 'sp', 'dp'):
        ew, mw, bias = FMT[fmt]
        emax = (1 << ew) - 1
        if fmt == 'hp' or (fmt == 'sp' and not quick):
            es = list(range(emax + 1))
        elif not quick:
            es = list(range(emax + 1))
        else:
            es = sorted(set([0, 1, 2, bias - 1, bias, bias + 1, emax - 2, emax - 1, emax] + rnd.sample(range(emax + 1), 12 if fmt == 'sp' else 8)))
        for e in es:
            t.append(('round trip %s exponent field %d' % (fmt, e), roundtrip_task, {'fmt': fmt, 'e': e}))
    # arithmetic: hp exponent pairs (quick: boundary pairs; thorough: all 31x31); sp/dp: a few pairs (path counts grow with
    # the square of the mantissa width, so these are thorough-only apart from one sp pair)
    hp = list(range(0, 31))
    if quick:
        pairs = [('hp', a, b) for a, b in ((1, 2), (1, 30), (14, 15), (15, 20), (7, 18))]
    else:
        pairs = [('hp', a, b) for a in hp for b in hp]
        pairs += [('sp', a, b) for a, b in ((0, 0), (0, 1), (1, 1), (127, 127), (127, 130), (254, 254), (254, 1), (100, 140), (1, 30))]
        pairs += [('dp', a, b) for a, b in ((0, 1), (1023, 1024), (2046, 2046), (1000, 1060))]
    for fmt, a, b in pairs:
        t.append(('FPNum arithmetic %s exponent fields %d,%d' % (fmt, a, b), arith_task, {'fmt': fmt, 'ea': a, 'eb': b}))
    # wide exponent gaps (sp/dp extremes) with a reduced mantissa: top 3 and bottom 2 bits free, the rest zero
    for fmt, a, b in ((('sp', 254, 1), ('dp', 1023, 1300)) if quick else
                      (('sp', 254, 1), ('sp', 0, 254), ('dp', 1023, 1300), ('dp', 700, 1023), ('dp', 1500, 1023), ('dp', 2046, 1))):
        t.append(('FPNum arithmetic %s exponent fields %d,%d, mantissas with 3 top and 2 bottom bits free' % (fmt, a, b), arith_task,
                  {'fmt': fmt, 'ea': a, 'eb': b, 'mbits': (3, 2)}))
    for fmt, ebs in (('hp', (1, 8, 0, 15, 30)), ('sp', (100, 0, 1, 127, 254)), ('dp', (1, 1023))):
        for eb in (ebs if not quick else ebs[:2] if fmt == 'hp' else ebs[:1] if fmt == 'sp' else ()):
            t.append(('FPNum compare with zeros %s, other operand exponent field %d' % (fmt, eb), zero_task, {'fmt': fmt, 'eb': eb}))
    for fmt in ('sp', 'dp'):
        ew, mw, bias = FMT[fmt]
        emax = (1 << ew) - 1
        if quick:
            es = sorted(set([0, 1, 2, bias - 1, bias, bias + 1, emax - 1, emax] + random.Random(seed + 5).sample(range(emax + 1), 10)))
        else:
            es = list(range(emax + 1))
        for e in es:
            t.append(('FloatingPointHelper %s exponent field %d' % (fmt, e), float_task, {'fmt': fmt, 'e': e}))
    for fmt in (('dp', 'hp') if quick else ('dp', 'sp', 'hp')):
        for chain in CHAINS:
            t.append(('FPNum chained arithmetic %s %s, operands from a boundary table' % (fmt, chain), chain_task, {'fmt': fmt, 'chain': chain}))
    # the long-running sp/dp arithmetic tasks first, so that they overlap with the many short ones
    heavy = [x for x in t if x[0].startswith('FPNum arithmetic dp')] + [x for x in t if x[0].startswith('FPNum arithmetic sp')]
    return heavy + [x for x in t if x not in heavy]


def main(argv=None):
    args = common.parse_args(PROP, argv)
    return common.run_check(
        PROP, 'model_checking', tasks_for(args.tier, args.seed), args, design_ref='DESIGN.md section 3 (C12)',
        technique='path-complete symbolic execution of the real helper functions on z3 bit-vector integers (mantissas, values and widths symbolic; exponent fields enumerated); per path a QF_BV query under the path condition',
        assumptions=['NaN payloads excepted (exponent all ones is checked for infinities only)', 'FPNum arithmetic on finite operands',
                     'FloatingPointHelper conversions run on an exact dyadic float model (sign, integer mantissa, concrete exponent; only operations that are exact in double arithmetic); values not representable in the target format (rounding), FPNum.to_float/div/sqrt/reducePrecision* are outside'],
        bounds={'two\'s complement': 'all widths 1..16 (32 thorough), value and width symbolic', 'FixedPoint': 'all formats (1,i,f), i >= 1, up to total width 8 (12)',
                'FPNum round trip': 'hp: all 32 exponent fields; sp: 21 fields quick / all 256 thorough; dp: 17 quick / all 2048 thorough; both signs, all mantissas',
                'FPNum arithmetic': 'hp: exponent pairs (band + boundaries quick, all 31x31 thorough); sp/dp: boundary pairs, all mantissa pairs (thorough; dp pairs may end at the task time limit) and, wide-gap sp/dp pairs (2 quick, 6 thorough) with only the top 3 and bottom 2 mantissa bits free; all four sign combinations; chained operations (5 expression shapes) on operands drawn by symbolic selectors from 7 boundary mantissas x 5 exponent fields per operand'},
        trusted_base=['z3', 'symx operator semantics', 'rational cross-multiplication oracle in checks/c12.py (replay uses fractions.Fraction)'], task_limit=1800)



# ---------------------------------------------------------------------------------------------------
# FloatingPointHelper: bit pattern <-> Python float, on the exact dyadic float model (symx.symfloat)

FFMT = {'sp': (8, 23, 127, 'ieee754_to_sp', 'sp_to_ieee754', '>f', '>I'), 'dp': (11, 52, 1023, 'ieee754_to_dp', 'dp_to_ieee754', '>d', '>Q')}


def float_task(p, cfg, rec):
    """pattern -> ieee754_to_xx -> value (== IEEE definition) -> xx_to_ieee754 -> pattern, one exponent field, both signs"""
    import struct
    from symx.symfloat import SymFloat
    fmt, e = cfg['fmt'], cfg['e']
    ew, mw, bias, to_f, to_p, sf, si = FFMT[fmt]
    rec.update(['py4hw.helper.FloatingPointHelper.' + n for n in (to_f, to_p, 'fp_to_parts', 'ieee754_parts_to_' + fmt, fmt + '_to_ieee754_parts', 'parts_to_fp')])
    shims.install(H, ('isinstance', 'int', 'round', 'math'))
    FH = H.FloatingPointHelper
    emax = (1 << ew) - 1
    try:
        for s in (0, 1):
            # (done first, so that it also runs when the symbolic part below ends as inconclusive)
            # tie the definition to the platform on boundary mantissas (concrete, real math module)
            shims.uninstall(H, ('isinstance', 'int', 'round', 'math'))
            try:
                for mval in ([0] if e == emax else [0, 1, (1 << mw) - 1, (1 << mw) - 2, 1 << (mw - 1), (1 << (mw - 1)) + 1, (1 << (mw - 1)) - 1, 0x5555555555555 & ((1 << mw) - 1)]):
                    pt = (s << (ew + mw)) | (e << mw) | mval
                    want = struct.unpack(sf, struct.pack(si, pt))[0]
                    got = getattr(H.FloatingPointHelper, to_f)(pt)
                    okv = (got == want and _math_copysign(got) == _math_copysign(want))
                    bk = getattr(H.FloatingPointHelper, to_p)(want)
                    p.structural('%s %s: helper agrees with struct in both directions' % (fmt, hex(pt)), okv and bk == pt,
                                 detail={'decoded': repr(got), 'platform': repr(want), 'encoded': hex(bk)})
                    # the arbitrary-precision type read from the same pattern and turned back into a Python number (Decimal based: concrete only)
                    try:
                        nf = H.FPNum(pt, fmt).to_float()
                        okn = (nf == want and _math_copysign(nf) == _math_copysign(want)) or (nf != nf and want != want)
                    except Exception as ex:
                        nf, okn = repr(ex), False
                    if want == want:
                        p.structural('%s %s: FPNum(pattern).to_float() is the platform value' % (fmt, hex(pt)), okn, detail={'to_float': repr(nf), 'platform': repr(want)})
                    p.res['traces_validated'] += 1
            finally:
                shims.install(H, ('isinstance', 'int', 'round', 'math'))
            m, mv = core.fresh('m', mw)
            ctx.set_assumptions([mv == 0] if e == emax else [])
            p.assumptions = list(ctx.assumptions)
            pat = (s << (ew + mw)) | (e << mw) | m

            def run():
                v = getattr(FH, to_f)(pat)
                if isinstance(v, SymFloat):
                    back = getattr(FH, to_p)(v)
                    return ('sym', v.s, v.M, v.E, back)
                # concrete float (zeros, infinities): go through the real math for the way back
                return ('conc', v, None, None, getattr(FH, to_p)(v))
            with quiet():
                res = run_paths(run)
            p.res['transitions'] += len(res)
            viol_def, viol_back = [], []
            for k, r in enumerate(res):
                if r.exc is not None:
                    if isinstance(r.exc, Unsupported):
                        p.inconclusive('%s s=%d e=%d path %d' % (fmt, s, e, k), 'float model: %s' % r.exc)
                        continue
                    rr, mm = p.satisfiable(r.pc)
                    ex = {'m': common.model_value(mm, mv)} if mm is not None else {}
                    p.structural('%s s=%d e=%d path %d completes' % (fmt, s, e, k), False, detail={'exception': repr(r.exc), 'example': ex})
                    continue
                kind, vs, vM, vE, back = r.ret
                if kind == 'sym':
                    # IEEE definition of the encoding: subnormal m * 2**(1-bias-mw), normal (2**mw + m) * 2**(e-bias-mw)
                    dM, dE = (m, 1 - bias - mw) if e == 0 else ((1 << mw) + m, e - bias - mw)
                    E0 = min(vE, dE)
                    c = z3.Or(z3.BoolVal(vs != (1 if s == 0 else -1)), ne(vM << (vE - E0), dM << (dE - E0)))
                    viol_def.append(z3.And(pc_cond(r.pc), c))
                else:
                    # concrete value: compare with the platform encoding directly under the path condition
                    rr, mm = p.satisfiable(r.pc)
                    if mm is not None:
                        mval = common.model_value(mm, mv)
                        pt = (s << (ew + mw)) | (e << mw) | mval
                        want = struct.unpack(sf, struct.pack(si, pt))[0]
                        same = (vs == want or (vs != vs and want != want)) and (_math_copysign(vs) == _math_copysign(want))
                        p.structural('%s pattern %s decodes like the platform (%r)' % (fmt, hex(pt), want), same, detail={'got': repr(vs), 'expected': repr(want)})
                viol_back.append(z3.And(pc_cond(r.pc), ne(back, pat)))

            def replay(values, s=s):
                pt = (s << (ew + mw)) | (e << mw) | values['m']
                RH = __import__('py4hw.helper', fromlist=['x'])
                shims.uninstall(H, ('isinstance', 'int', 'round', 'math'))
                try:
                    v = getattr(RH.FloatingPointHelper, to_f)(pt)
                    want = struct.unpack(sf, struct.pack(si, pt))[0]
                    bk = getattr(RH.FloatingPointHelper, to_p)(v)
                finally:
                    shims.install(H, ('isinstance', 'int', 'round', 'math'))
                if v != want or _math_copysign(v) != _math_copysign(want) or bk != pt:
                    return {'pattern': hex(pt), 'decoded': repr(v), 'platform': repr(want), 'encoded back': hex(bk)}
                return None
            p.prove_many('%s s=%d e=%d: decoded value equals the IEEE-754 definition' % (fmt, s, e), viol_def, inputs={'m': mv}, replay=replay)
            p.prove_many('%s s=%d e=%d: pattern -> float -> pattern is the identity' % (fmt, s, e), viol_back, inputs={'m': mv}, replay=replay)
    finally:
        shims.uninstall(H, ('int', 'round', 'math'))
    p.res['states'] += 1


def _math_copysign(x):
    import math
    return math.copysign(1, x)


if __name__ == '__main__':
    sys.exit(main())
