"""
C03 -- emitted Verilog is self-consistent: it parses, resolves and elaborates.

(1) every text the real generator returns for the C01 corpus is parsed and elaborated by the E2
    front end; each resolution step is an obligation (declared exactly once, legal non-reserved
    identifier, module defined once, ports exist with matching width, one driver of the right kind).
(2) naming configurations: user-chosen port / wire / instance names drawn from an adversarial
    pool built from the generator's own prefixes and the reserved-word tables.
(3) interchangeability: objects that are emitted under the same module name must have the same
    interface, and their separately generated bodies are proved equivalent by the solver.
"""
import itertools
import io
import sys
import zlib

import z3

from . import common
from .comb import quiet
from . import designs as D
from . import c01
from .vequiv import generate, wrap_in_box
from symx import core

import py4hw
from py4hw.logic.storage import Reg, Latch
from py4hw.logic.bitwise import And2, Not, Buf, BufEnable, Or2
from py4hw.logic.arithmetic import Add, Abs, Neg, Sign
from vlog import elab
from vlog.parser import VlogUnsupported, VlogSyntaxError, parse

PROP = 'C03'


def report_obligations(p, d, prefix='', ignore=None):
    seen = set()
    for name, ok, detail in d.obligations:
        if not ok and ignore is not None and ignore(name):
            continue
        if ok:
            p.res['obligations'] += 1
            p.res['discharged'] += 1
            p.res['nontrivial'] += 1
        else:
            key = (name, str(detail))
            if key in seen:
                continue
            seen.add(key)
            p.structural(prefix + name, False, detail=detail)


def elaborate_text(p, text, label='', blackboxes=(), ignore=None):
    try:
        d = elab.load(text, blackboxes=blackboxes)
    except VlogSyntaxError as e:
        p.structural('%semitted text parses' % label, False, detail={'error': str(e), 'text': text[:300]})
        return None
    except VlogUnsupported as e:
        p.inconclusive('%selaboration' % label, 'front end: %s' % e)
        return None
    p.structural('%semitted text parses' % label, True)
    report_obligations(p, d, label, ignore)
    if d.fatal:
        # a fatal resolution problem that is itself an obligation failure has been reported above
        if not any(not ok for _, ok, _ in d.obligations):
            p.inconclusive('%selaboration' % label, 'front end: %s' % d.fatal)
        return None
    # constructs whose meaning the standard leaves open or that are illegal
    try:
        sim = elab.Sim(d, {n: z3.BitVec('in_' + n, d.nets[n].width) for n in d.inputs}, None)
        sim.outputs()
        if d.seq_blocks:
            sim.step()
        p.structural('%sall expressions are legal and defined (no zero replication, no unsized literal beyond 32 bits, selects in range)' % label, True)
    except VlogUnsupported as e:
        msg = str(e)
        illegal = any(k in msg for k in ('replication count', 'unsized literal', 'part select', 'bit select out of range', 'combinational loop'))
        if illegal:
            p.structural('%sall expressions are legal and defined: %s' % (label, msg), False, detail={'construct': msg})
        else:
            p.inconclusive('%sevaluation' % label, 'front end: %s' % msg)
    return d


def corpus_task(p, cfg, rec):
    with quiet():
        s = py4hw.HWSystem()
        try:
            box, ins, outs, extra = cfg['build'](s)
        except Exception as e:
            p.res['refused'] += 1
            return
    text, exc = generate(box)
    if text is None:
        p.res['refused'] += 1
        p.note('%s: generator refused: %r' % (p.config, exc))
        return
    p.res['programs'] += 1
    elaborate_text(p, text)


# ---------------------------------------------------------------------------------------------------
POOL = ['x', 'y', 'w_x', 'i_x', 'reserved_x', 'clk', 'w_clk', 'module', 'reserved_module', 'reg', 'signed', 'logic', 'begin', 'X',
        'output', 'w_y', 'i_y', 'int', 'wire', 'reserved_wire']


def naming_task(p, cfg, rec):
    pin, wname, iname, pout = cfg['names']
    seq = cfg['seq']
    with quiet():
        s = py4hw.HWSystem()
        a = s.wire('top_a', 2)
        b = s.wire('top_b', 2)
        o = s.wire('top_o', 2)

        def body(bx):
            t = bx.wire(wname, 2)
            And2(bx, 'g_and', a, b, t)
            if seq:
                Reg(bx, iname, t, o)
                if cfg.get('twin'):
                    # a sibling instance whose name is the other one's name with the generator's instance prefix
                    Reg(bx, 'i_' + iname, t, bx.wire('o_twin', 2))
            else:
                Not(bx, 'n0', t, bx.wire('nt', 2))

                def inner(b2):
                    Buf(b2, 'bf', t, o)
                D.Box(bx, iname, {'i': t}, {'o': o}, inner)
        try:
            box = D.Box(s, 'box', {pin: a, 'second': b}, {pout: o}, body)
        except Exception as e:
            p.res['refused'] += 1
            return
    text, exc = generate(box)
    if text is None:
        p.res['refused'] += 1
        p.note('%s: generator refused: %r' % (p.config, exc))
        return
    p.res['programs'] += 1
    elaborate_text(p, text)


class ParamLeaf(py4hw.Logic):
    """behavioural block with a module parameter (as in test/interactive/tb_Parameter.py)"""
    def __init__(self, parent, name, a, r, n):
        super().__init__(parent, name)
        self.a = self.addIn('a', a)
        self.r = self.addOut('r', r)
        self.addParameter('N', n)

    def propagate(self):
        self.r.put(self.a.get() + self.getParameterValue('N'))


class ParamBox(py4hw.Logic):
    """structural block that hands its parameter down"""
    def __init__(self, parent, name, a, r, n, depth):
        super().__init__(parent, name)
        self.addIn('a', a)
        self.addOut('r', r)
        self.addParameter('N', n)
        if depth > 0:
            ParamBox(self, 'inner', a, r, self.getParameter('N'), depth - 1)
        else:
            ParamLeaf(self, 'leaf', a, r, self.getParameter('N'))


def param_task(p, cfg, rec):
    """module parameters handed down through `depth` structural levels: the text must parse and resolve"""
    with quiet():
        s = py4hw.HWSystem()
        a, r = s.wire('a', 8), s.wire('r', 8)
        top = ParamBox(s, 'top', a, r, cfg['value'], cfg['depth'])
    text, exc = generate(top)
    if text is None:
        p.res['refused'] += 1
        p.note('%s: generator refused: %r' % (p.config, exc))
        return
    p.res['programs'] += 1
    elaborate_text(p, text)


def pathname_task(p, cfg, rec):
    """two objects of one class WITHOUT structureName (so each gets a per-instance module) at hierarchy paths whose instance
    names are built from the same characters: u_x/c and u/x_c, a/b_c/d and a_b/c_d ...; their interfaces differ, so any
    sharing of a module between them is visible as a port/width mismatch"""
    (n1, m1), (n2, m2) = cfg['paths']
    with quiet():
        s = py4hw.HWSystem()
        a2, o2 = s.wire('a2', 2), s.wire('o2', 2)
        a3, o3, e3 = s.wire('a3', 3), s.wire('o3', 3), s.wire('e3', 1)

        def leafbox2(b):
            Reg(b, 'r', a2, o2)

        def leafbox3(b):
            Reg(b, 'r', a3, o3, enable=e3)

        def outer1(b):
            D.Box(b, m1, {'d': a2}, {'q': o2}, leafbox2)

        def outer2(b):
            D.Box(b, m2, {'d': a3, 'en': e3}, {'q': o3}, leafbox3)

        def top(b):
            D.Box(b, n1, {'d': a2}, {'q': o2}, outer1)
            D.Box(b, n2, {'d': a3, 'en': e3}, {'q': o3}, outer2)
        try:
            box = D.Box(s, 'top', {'a2': a2, 'a3': a3, 'e3': e3}, {'o2': o2, 'o3': o3}, top)
        except Exception:
            p.res['refused'] += 1
            return
    text, exc = generate(box)
    if text is None:
        p.res['refused'] += 1
        p.note('%s: generator refused: %r' % (p.config, exc))
        return
    p.res['programs'] += 1
    elaborate_text(p, text)


# ---------------------------------------------------------------------------------------------------
def regen_task(p, cfg, rec):
    """a circuit that is EDITED between two generation requests (interactive use: generate, look at the text, expose an internal
    net / add a stage, generate again): every returned text must be closed and legal for the circuit as it is at that moment"""
    edit, entry, reuse, w = cfg['edit'], cfg['entry'], cfg['reuse'], cfg['w']
    with quiet():
        s = py4hw.HWSystem()
        a, b_, r = s.wire('a', w), s.wire('b', w), s.wire('r', w)
        holder = {}

        def body(b):
            t = b.wire('t', w)
            holder['t'] = t
            And2(b, 'and', a, b_, t)
            Not(b, 'not', t, r)
        box = D.Box(s, 'blk', {'a': a, 'b': b_}, {'r': r}, body)
    gens = {}

    def request():
        out = io.StringIO()
        old = sys.stdout
        sys.stdout = out
        try:
            g = gens.setdefault('g', py4hw.VerilogGenerator(box)) if reuse else py4hw.VerilogGenerator(box)
            return (g.getVerilog(box) if entry == 'module' else g.getVerilogForHierarchy()), None
        except Exception as e:
            return None, e
        finally:
            sys.stdout = old
    t1, exc = request()
    if t1 is None:
        p.res['refused'] += 1
        p.note('%s: generator refused the first request: %r' % (p.config, exc))
        return
    p.res['programs'] += 1
    elaborate_text(p, t1, label='first request: ')
    with quiet():
        if edit == 'expose-internal-net':
            box.addOut('dbg', holder['t'])
        elif edit == 'add-input-and-stage':
            c = s.wire('c', w)
            box.addIn('c', c)
            u = box.wire('u', w)
            Or2(box, 'or', holder['t'], c, u)
            box.addOut('u', u)
        elif edit == 'add-internal-stage':
            u = box.wire('u', w)
            Buf(box, 'cp', holder['t'], u)
            box.addOut('u', u)
        elif edit == 'expose-then-stage':
            box.addOut('dbg', holder['t'])
            u = box.wire('u', w)
            Not(box, 'n2', holder['t'], u)
            box.addOut('u', u)
    t2, exc = request()
    if t2 is None:
        p.res['refused'] += 1
        p.note('%s: generator refused the request after the edit: %r' % (p.config, exc))
        return
    p.res['programs'] += 1
    elaborate_text(p, t2, label='request after the edit: ')


def renamed_task(p, cfg, rec):
    """wires renamed after construction: when the construction API lets a local wire take the name of a sibling (C11 says it must
    refuse), generation must not hand back text with that name declared twice / driven twice"""
    how, w = cfg['how'], cfg['w']
    with quiet():
        s = py4hw.HWSystem()
        a, r = s.wire('a', w), s.wire('r', w)
        holder = {}

        def body(b):
            s0, s1 = b.wire('s0', w), b.wire('s1', w)
            holder.update(s0=s0, s1=s1, box=b)
            Reg(b, 'r0', a, s0)
            Reg(b, 'r1', s0, s1)
            Buf(b, 'o', s1, r)
        box = D.Box(s, 'pipe', {'a': a}, {'r': r}, body)
        try:
            if how == 'rename both to a new name':
                holder['s0'].rename('stage')
                holder['s1'].rename('stage')
            elif how == 'rename onto the sibling':
                holder['s1'].rename('s0')
            elif how == 'reparentAndRename onto the sibling':
                holder['s1'].reparentAndRename(box, 's0')
            elif how == 'rename to fresh names':
                holder['s0'].rename('stage0')
                holder['s1'].rename('stage1')
        except Exception as e:
            p.res['refused'] += 1
            p.note('%s: the construction API refused: %r' % (p.config, e))
            return
    text, exc = generate(box)
    if text is None:
        p.res['refused'] += 1
        p.note('%s: generator refused: %r' % (p.config, exc))
        return
    p.res['programs'] += 1
    elaborate_text(p, text)


class _Splitter(py4hw.Logic):
    """behavioural leaf with two output ports (used with ONE wire on both of them)"""
    def __init__(self, parent, name, a, lo, hi):
        super().__init__(parent, name)
        self.a = self.addIn('a', a)
        self.lo = self.addOut('lo', lo)
        self.hi = self.addOut('hi', hi)

    def propagate(self):
        self.lo.put(self.a.get() & 1)
        self.hi.put(self.a.get() >> 1)


def twice_driven_task(p, cfg, rec):
    """one wire attached to two output ports of the SAME leaf: the construction API refuses it (a second driver); if it ever lets
    it through, generation must not return text in which that net has two drivers"""
    how = cfg['how']
    with quiet():
        s = py4hw.HWSystem()
        a, r = s.wire('a', 2), s.wire('r', 1)
        try:
            def body(b):
                x = b.wire('x', 1)
                if how == 'inlined primitive (BitsLSBF)':
                    py4hw.BitsLSBF(b, 'bits', a, [x, x])
                elif how == 'behavioural leaf':
                    _Splitter(b, 'split', a, x, x)
                else:
                    py4hw.Swap(b, 'swap', b.wire('p', 1), b.wire('q', 1), b.wire('sw', 1), x, x)
                Buf(b, 'o', x, r)
            box = D.Box(s, 'top', {'a': a}, {'r': r}, body)
        except Exception as e:
            p.res['refused'] += 1
            p.note('%s: the construction API refused: %r' % (p.config, e))
            return
    text, exc = generate(box)
    if text is None:
        p.res['refused'] += 1
        p.note('%s: generator refused: %r' % (p.config, exc))
        return
    p.res['programs'] += 1
    elaborate_text(p, text)


def dangling_task(p, cfg, rec):
    """designs under construction: nets that no leaf drives and/or no leaf reads, hooked to ports of structural children only.
    The circuit is incomplete (that is the user's business, so 'has a driver' is not demanded for the nets the circuit itself
    leaves undriven), but the text must still be closed: every net named by an instance statement is declared, with the width
    of the port it connects"""
    w, shape = cfg['w'], cfg['shape']
    undriven = set()
    with quiet():
        s = py4hw.HWSystem()
        a, r = s.wire('a', w), s.wire('r', w)

        def stage(name, parent, i, o, dbg_out=None, dbg_in=None, drive=False, read=False):
            def body(b):
                Not(b, 'inv', i, o)
                if drive and dbg_out is not None:
                    Buf(b, 'drv', i, dbg_out)
                if read and dbg_in is not None:
                    Buf(b, 'rd', dbg_in, b.wire('seen', w))
            ins = {'i': i}
            outs = {'o': o}
            if dbg_in is not None:
                ins['dbg_in'] = dbg_in
            if dbg_out is not None:
                outs['dbg'] = dbg_out
            return D.Box(parent, name, ins, outs, body)

        def top(b):
            m = b.wire('m', w)
            if shape == 'out-unconnected-inside':
                d0, d1 = b.wire('dbg0', w), b.wire('dbg1', w)
                stage('s0', b, a, m, dbg_out=d0)
                stage('s1', b, m, r, dbg_out=d1)
                undriven.update(('dbg0', 'dbg1', 'dbg'))
            elif shape == 'undriven-to-unread':
                d0 = b.wire('link', w)
                stage('s0', b, a, m, dbg_out=d0)
                stage('s1', b, m, r, dbg_in=d0)
                undriven.update(('link', 'dbg', 'dbg_in'))
            elif shape == 'driven-to-unread':
                d0 = b.wire('link', w)
                stage('s0', b, a, m, dbg_out=d0, drive=True)
                stage('s1', b, m, r, dbg_in=d0)
            elif shape == 'undriven-to-read':
                d0 = b.wire('link', w)
                stage('s0', b, a, m, dbg_out=d0)
                stage('s1', b, m, r, dbg_in=d0, read=True)
                undriven.update(('link', 'dbg', 'dbg_in'))
            elif shape == 'driven-unconnected-outside':
                d0 = b.wire('spare', w)
                stage('s0', b, a, m, dbg_out=d0, drive=True)
                stage('s1', b, m, r)
            elif shape == 'two-levels':
                d0 = b.wire('dbg0', w)

                def mid(b2):
                    stage('leafbox', b2, a, m, dbg_out=d0)
                D.Box(b, 'mid', {'i': a}, {'o': m, 'dbg': d0}, mid)
                stage('s1', b, m, r)
                undriven.update(('dbg0', 'dbg'))
        try:
            box = D.Box(s, 'top', {'a': a}, {'r': r}, top)
        except Exception:
            p.res['refused'] += 1
            return
    text, exc = generate(box)
    if text is None:
        p.res['refused'] += 1
        p.note('%s: generator refused: %r' % (p.config, exc))
        return
    p.res['programs'] += 1

    def ignore(name):
        # 'wire <path> has a driver' / 'exactly one driver' for nets the circuit itself leaves undriven
        if 'driver' not in name:
            return False
        toks = name.replace('.', ' ').split()
        return any(t in undriven or (t.startswith('w_') and t[2:] in undriven) for t in toks)
    elaborate_text(p, text, ignore=ignore)


# ---------------------------------------------------------------------------------------------------
def sig_of(mod):
    return [(q.direction, q.name, None if q.rng is None else (elab.const_eval(q.rng[0]), elab.const_eval(q.rng[1]))) for q in mod.ports]


def module_text(obj):
    import io
    old = sys.stdout
    sys.stdout = io.StringIO()
    try:
        g = py4hw.VerilogGenerator(obj)
        return g.getVerilogForHierarchy(obj, noInstanceNumberInTopEntity=False)
    finally:
        sys.stdout = old


def share_points():
    """(class label, builder(s) -> obj) for classes that choose their own module name"""
    W = lambda s, n, w=1: s.wire(n, w)
    pts = []
    for dw in (3, 4, 6):
        for ew in (None, 1, 2):
            for rw in (None, 1, 2):
                for rv in (None, 0, 2):
                    pts.append(('Reg d%d q4 e%s r%s rv%s' % (dw, ew, rw, rv),
                                lambda s, dw=dw, ew=ew, rw=rw, rv=rv: Reg(s, 'o', W(s, 'd', dw), W(s, 'q', 4), enable=None if ew is None else W(s, 'e', ew),
                                                                             reset=None if rw is None else W(s, 'r', rw), reset_value=rv)))
    for dw in (3, 4, 5):
        for ew in (1, 2):
            pts.append(('Latch d%d q4 e%d' % (dw, ew), lambda s, dw=dw, ew=ew: Latch(s, 'o', W(s, 'd', dw), W(s, 'q', 4), W(s, 'e', ew))))
    for aw, bw, rw in itertools.product((3, 4), (3, 4), (4, 5)):
        for ci, co in itertools.product((None, 1, 2), (None, 1, 2)):
            pts.append(('Add a%d b%d r%d ci%s co%s' % (aw, bw, rw, ci, co),
                        lambda s, aw=aw, bw=bw, rw=rw, ci=ci, co=co: Add(s, 'o', W(s, 'a', aw), W(s, 'b', bw), W(s, 'r', rw),
                                                                           ci=None if ci is None else W(s, 'ci', ci), co=None if co is None else W(s, 'co', co))))
    for aw, rw in itertools.product((3, 4), (3, 4, 5)):
        for inv in (None, 1, 2):
            pts.append(('Abs a%d r%d inv%s' % (aw, rw, inv),
                        lambda s, aw=aw, rw=rw, inv=inv: Abs(s, 'o', W(s, 'a', aw), W(s, 'r', rw), inverted=None if inv is None else W(s, 'iv', inv))))
        pts.append(('Neg a%d r%d' % (aw, rw), lambda s, aw=aw, rw=rw: Neg(s, 'o', W(s, 'a', aw), W(s, 'r', rw))))
    for aw in (3, 4):
        pts.append(('Sign a%d' % aw, lambda s, aw=aw: Sign(s, 'o', W(s, 'a', aw), W(s, 'r', 1))))
        for ew in (1,):
            pts.append(('BufEnable a%d' % aw, lambda s, aw=aw: BufEnable(s, 'o', W(s, 'a', aw), W(s, 'en', 1), W(s, 'r', aw))))
    return pts


def share_task(p, cfg, rec):
    """all points of one module name: identical interface, equivalent bodies"""
    name, members = cfg['name'], cfg['members']
    base = None
    for label, mk in members:
        with quiet():
            s = py4hw.HWSystem()
            obj = mk(s)
        try:
            text = module_text(obj)
        except Exception as e:
            p.res['refused'] += 1
            continue
        p.res['programs'] += 1
        try:
            mods = parse(text)
        except (VlogSyntaxError, VlogUnsupported) as e:
            p.inconclusive('parse %s' % label, str(e))
            continue
        top = [m for m in mods if m.name == name]
        if not top:
            continue
        sig = sig_of(top[0])
        if base is None:
            base = (label, sig, text)
            continue
        same = sig == base[1]
        p.structural('module name %s: %s has the interface of %s' % (name, label, base[0]), same,
                     detail={'module': name, 'first': base[0], 'first ports': base[1], 'other': label, 'other ports': sig})
        if not same:
            continue
        # bodies: equivalence by the solver on shared symbols
        try:
            d1, d2 = elab.load(base[2], top=name), elab.load(text, top=name)
            if d1.fatal or d2.fatal:
                p.inconclusive('body equivalence %s' % label, 'front end: %s' % (d1.fatal or d2.fatal))
                continue
            ins = {n: z3.BitVec('in_' + n, d1.nets[n].width) for n in d1.inputs}
            st1 = dict(elab.Sim(d1, ins, None).state_nets())
            st2 = dict(elab.Sim(d2, ins, None).state_nets())
            if st1 != st2:
                p.structural('module name %s: %s has the same state variables as %s' % (name, label, base[0]), False,
                             detail={'first': sorted(st1), 'other': sorted(st2)})
                continue
            S = {n: z3.BitVec('st_' + n, w) for n, w in st1.items()}
            a, b = elab.Sim(d1, ins, S), elab.Sim(d2, ins, S)
            conds = [a.outputs()[o] != b.outputs()[o] for o in d1.outputs]
            i1, i2 = elab.Sim(d1, ins, None).state, elab.Sim(d2, ins, None).state
            init_diff = [k for k in i1 if not z3.simplify(i1[k]).eq(z3.simplify(i2[k]))]
            p.structural('module name %s: %s has the power-up state of %s' % (name, label, base[0]), not init_diff, detail={'differ': init_diff})
            if d1.seq_blocks or d2.seq_blocks:
                n1, n2 = a.step(), b.step()
                conds += [n1[k] != n2[k] for k in n1]
            p.prove('module name %s: body of %s is equivalent to the body of %s' % (name, label, base[0]), z3.Or(*conds) if conds else z3.BoolVal(False),
                    inputs={**{'in:' + k: v for k, v in ins.items()}, **{'st:' + k: v for k, v in S.items()}})
            p.res['disagreements_checked'] += 1
        except VlogUnsupported as e:
            p.inconclusive('body equivalence %s' % label, 'front end: %s' % e)


def tasks_for(tier, seed):
    quick = tier == 'quick'
    t = []
    for name, cfg in c01.cfgs(tier, seed):
        if quick and zlib.crc32(name.encode()) % 2 and name.startswith('C0'):
            continue
        t.append(('corpus ' + name, corpus_task, cfg))
    pool = POOL[:12] if quick else POOL
    for seq in (True, False):
        for names in itertools.product(pool, pool, pool, pool[:4] if quick else pool[:8]):
            pin, wn, inn, pout = names
            if pin == pout or pin == 'second' or pout == 'second':
                continue
            if quick and zlib.crc32(repr((names, seq)).encode()) % 6:
                continue
            t.append(('naming %s port_in=%s wire=%s instance=%s port_out=%s' % ('reg' if seq else 'box', pin, wn, inn, pout), naming_task,
                      {'names': names, 'seq': seq}))
    # every IEEE 1364-2005 keyword (E2's own table, not the generator's) as an input and as an output port name
    for kw in sorted(elab.RESERVED):
        for names in ((kw, 'y', 'r0', 'x'), ('x', 'y', 'r0', kw)):
            nm = 'naming reg port_in=%s wire=%s instance=%s port_out=%s' % names
            if not any(nm == x[0] for x in t):
                t.append((nm, naming_task, {'names': names, 'seq': True}))
    for paths in ((('u_x', 'c'), ('u', 'x_c')), (('u', 'x_c'), ('u_x', 'c')), (('a', 'b'), ('a_b', 'b')), (('p', 'q_'), ('p_q', '')), (('x', 'x'), ('x_x', 'x')),
                  (('n1', 'n2'), ('n1_n2', 'n2')), (('A', 'b'), ('a', 'B'))):
        if paths[0][1] == '' or paths[1][1] == '':
            continue
        t.append(('hierarchy paths %s/%s and %s/%s of one per-instance class with different interfaces' % (paths[0] + paths[1]), pathname_task, {'paths': paths}))
    for iname in ('stage', 'x', 'i_x', 'w_x'):
        t.append(('naming reg port_in=a wire=t instance=%s port_out=o with a sibling instance i_%s' % (iname, iname), naming_task,
                  {'names': ('a', 't', iname, 'o'), 'seq': True, 'twin': True}))
    for shape in ('out-unconnected-inside', 'undriven-to-unread', 'driven-to-unread', 'undriven-to-read', 'driven-unconnected-outside', 'two-levels'):
        for w in (1, 8):
            t.append(('circuit under construction: %s, width %d' % (shape, w), dangling_task, {'shape': shape, 'w': w}))
    for how in ('rename both to a new name', 'rename onto the sibling', 'reparentAndRename onto the sibling', 'rename to fresh names'):
        t.append(('local wires renamed after construction: %s' % how, renamed_task, {'how': how, 'w': 8}))
    for how in ('inlined primitive (BitsLSBF)', 'behavioural leaf', 'structural block (Swap)'):
        t.append(('one wire on two output ports of one block: %s' % how, twice_driven_task, {'how': how}))
    for edit in ('expose-internal-net', 'add-input-and-stage', 'add-internal-stage', 'expose-then-stage'):
        for entry in ('module', 'hierarchy'):
            for reuse in (False, True):
                t.append(('circuit edited between two requests: %s, %s request, %s generator' % (edit, entry, 'same' if reuse else 'fresh'), regen_task,
                          {'edit': edit, 'entry': entry, 'reuse': reuse, 'w': 4}))
    for depth in (0, 1, 2):
        for value in (3, 200):
            t.append(('module parameter %d handed down through %d structural levels' % (value, depth), param_task, {'depth': depth, 'value': value}))
    # one configuration per listed naming finding, so that the quick tier exercises each of them
    for seq, names in ((True, ('x', 'y', 'r0', 'clk')), (True, ('clk', 'y', 'r0', 'x')), (True, ('module', 'y', 'r0', 'reserved_module')),
                       (False, ('reserved_module', 'x', 'b0', 'module')), (True, ('w_y', 'y', 'r0', 'x')), (True, ('x', 'y', 'r0', 'w_y')),
                       (True, ('i_r0', 'y', 'r0', 'x')), (True, ('x', 'y', 'r0', 'i_r0'))):
        nm = 'naming %s port_in=%s wire=%s instance=%s port_out=%s' % (('reg' if seq else 'box',) + names)
        if not any(nm == x[0] for x in t):
            t.append((nm, naming_task, {'names': names, 'seq': seq}))
    # interchangeability groups
    groups = {}
    for label, mk in share_points():
        with quiet():
            s = py4hw.HWSystem()
            try:
                obj = mk(s)
            except Exception:
                continue
        nm = py4hw.getVerilogModuleName(obj)
        groups.setdefault(nm, []).append((label, mk))
    for nm, members in sorted(groups.items()):
        if len(members) > 1:
            t.append(('shared module name %s (%d objects)' % (nm, len(members)), share_task, {'name': nm, 'members': members}))
    return t


def main(argv=None):
    args = common.parse_args(PROP, argv)
    return common.run_check(
        PROP, 'model_checking', tasks_for(args.tier, args.seed), args, design_ref='DESIGN.md section 3 (C03)',
        technique='elaboration obligations on the text returned by the real generator (E2 front end) over enumerated designs and naming configurations; same-name module bodies proved equivalent by z3',
        assumptions=['demands limited to what the statement lists: declared exactly once, legal non-reserved names, module defined once, ports exist with matching direction/width, one driver of the right kind per net, defined expressions',
                     'bit-select of a scalar, unused nets and width truncation in assignments are not flagged', 'vendor primitives would be declared black boxes (none in this corpus)'],
        bounds={'corpus': 'the C01 designs', 'naming': 'every combination of 4 user names from a pool of %d (quick: 1/6 sample over a pool of 12); every IEEE 1364-2005 keyword (%d) as input and as output port name' % (len(POOL), len(elab.RESERVED)),
                'interchangeability': 'Reg, Latch, Add, Abs, Neg, Sign, BufEnable over widths of all ports, optional ports and reset values'},
        trusted_base=['vlog front end (self-test table)', 'z3 for the body equivalence'])


if __name__ == '__main__':
    sys.exit(main())
