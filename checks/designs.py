"""
Small multi-block designs shared by C04/C05/C10 and helpers to make the whole sequential
state of a design symbolic.
"""
import ast
import inspect
import textwrap

import z3

from .comb import quiet
from symx import core, symsim
from symx.core import SymInt, SymBool

import py4hw
from py4hw.base import Logic, Wire
from py4hw.logic.storage import Reg, SynchronousMemory, TReg
from py4hw.logic.bitwise import Not, And2, Or2, Buf, Mux2, Constant, Xor2
from py4hw.logic.arithmetic import Add, Counter
from py4hw.logic.clock import EdgeDetector
from py4hw.logic.protocol.uart.clock import ClockSyncFSM
from py4hw.logic.simulation import Sequence


class Box(Logic):
    """a user-level structural block: ports given as dicts, body(self) instantiates children"""

    def __init__(self, parent, name, ins, outs, body):
        super().__init__(parent, name)
        for n, w in ins.items():
            self.addIn(n, w)
        for n, w in outs.items():
            self.addOut(n, w)
        body(self)


_assigned_cache = {}


def attrs_assigned_in_clock(cls):
    """names X such that clock() contains an assignment to self.X or self.X[...]"""
    if cls in _assigned_cache:
        return _assigned_cache[cls]
    names = []
    try:
        src = textwrap.dedent(inspect.getsource(cls.clock))
        tree = ast.parse(src)
        for node in ast.walk(tree):
            targets = []
            if isinstance(node, ast.Assign):
                targets = node.targets
            elif isinstance(node, (ast.AugAssign, ast.AnnAssign)):
                targets = [node.target]
            for t in targets:
                if isinstance(t, ast.Subscript):
                    t = t.value
                if isinstance(t, ast.Attribute) and isinstance(t.value, ast.Name) and t.value.id == 'self':
                    if t.attr not in names:
                        names.append(t.attr)
    except (OSError, TypeError, SyntaxError):
        pass
    _assigned_cache[cls] = names
    return names


STATE_RANGES = {
    'Sequence': {'i': lambda leaf: (0, leaf.n - 1)},
    'MsgSequencer': {'count': lambda leaf: (0, len(leaf.msg) - 1), 'state': lambda leaf: (0, 1)},
}


def leaf_key(sys, leaf):
    return leaf.getFullPath()


def symbolize_state(sys, tag='s_', attr_bits=8):
    """Every attribute assigned by a sequential leaf's clock() and every wire driven by a
    sequential leaf gets a fresh in-range symbol.  Returns an ordered dict {name: z3 var} and a
    loader usable for concrete replay (values by the same names)."""
    vars_ = {}
    for leaf in symsim.sequential_leaves(sys):
        path = leaf.getFullPath()
        ow = None
        for p in leaf.outPorts:
            ow = p.wire.getWidth()
            x, v = core.fresh('%s%s.%s' % (tag, path, p.name), p.wire.getWidth())
            p.wire.value = x
            vars_['%s.%s' % (path, p.name)] = v
        for a in attrs_assigned_in_clock(type(leaf)):
            cur = leaf.__dict__.get(a)
            if isinstance(leaf, Reg) and a == 'value':
                leaf.value = leaf.q.value          # representation invariant: value == q
                continue
            if isinstance(cur, (bool, SymBool)):
                x, v = core.fresh_bool('%s%s.%s' % (tag, path, a))       # a flag: either value
                setattr(leaf, a, x)
                vars_['%s.%s' % (path, a)] = v
                continue
            if isinstance(cur, (int, SymInt)):
                rng = STATE_RANGES.get(type(leaf).__name__, {}).get(a)
                if rng is not None:
                    lo, hi = rng(leaf)
                    x, v = core.fresh_range('%s%s.%s' % (tag, path, a), lo, hi)
                else:
                    x, v = core.fresh('%s%s.%s' % (tag, path, a), attr_bits)
                setattr(leaf, a, x)
                vars_['%s.%s' % (path, a)] = v
            elif isinstance(cur, list) and cur and all(isinstance(e, (int, SymInt)) for e in cur):
                bits = ow or attr_bits
                new = []
                for k in range(len(cur)):
                    x, v = core.fresh('%s%s.%s_%d' % (tag, path, a, k), bits)
                    new.append(x)
                    vars_['%s.%s[%d]' % (path, a, k)] = v
                setattr(leaf, a, new)
    return vars_


def load_concrete_state(sys, values):
    for leaf in symsim.sequential_leaves(sys):
        path = leaf.getFullPath()
        for p in leaf.outPorts:
            k = '%s.%s' % (path, p.name)
            if k in values:
                p.wire.value = values[k]
        for a in attrs_assigned_in_clock(type(leaf)):
            cur = leaf.__dict__.get(a)
            if isinstance(leaf, Reg) and a == 'value':
                leaf.value = leaf.q.value
                continue
            k = '%s.%s' % (path, a)
            if isinstance(cur, bool):
                if k in values:
                    setattr(leaf, a, bool(values[k]))
                continue
            if isinstance(cur, int) and k in values:
                setattr(leaf, a, values[k])
            elif isinstance(cur, list):
                setattr(leaf, a, [values.get('%s[%d]' % (k, j), cur[j]) for j in range(len(cur))])


def snapshot_all(sys):
    """{name: value} of every wire and every numeric attribute of every leaf"""
    r = {}
    for w in symsim.all_wires(sys):
        r['w:' + w.getFullPath()] = w.value
    for leaf in sys.allLeaves():
        flags = attrs_assigned_in_clock(type(leaf)) if leaf.isClockable() else ()
        for k, v in leaf.__dict__.items():
            if isinstance(v, (int, SymInt, SymBool)) and (not isinstance(v, bool) or k in flags):
                r['a:%s.%s' % (leaf.getFullPath(), k)] = v
            elif isinstance(v, list) and v and all(isinstance(e, (int, SymInt, SymBool)) for e in v):
                for j, e in enumerate(v):
                    r['a:%s.%s[%d]' % (leaf.getFullPath(), k, j)] = e
    return r


def differ(a, b):
    """z3 Bool / python bool: numeric values a and b differ"""
    if core.same_value(a, b):
        return False
    if not core.is_sym(a) and not core.is_sym(b):
        return int(a) != int(b)
    r = (a != b)
    if isinstance(r, bool):
        return r
    return r.b


# ----------------------------------------------------------------------------------------------
# designs: each returns {'ins': {name: wire}, 'gated': [paths of Box objects that may carry a gated driver]}

def d_chain(s, w=4, n=3):
    a = s.wire('a', w)
    last = a
    for k in range(n):
        q = s.wire('q%d' % k, w)
        Reg(s, 'r%d' % k, last, q)
        last = q
    return {'ins': {'a': a}}


def d_swap(s, w=4):
    q1, q2 = s.wire('q1', w), s.wire('q2', w)
    ld, a = s.wire('ld', 1), s.wire('a', w)
    d1 = s.wire('d1', w)
    Mux2(s, 'm', ld, q2, a, d1)
    Reg(s, 'r1', d1, q1)
    Reg(s, 'r2', q1, q2)
    return {'ins': {'ld': ld, 'a': a}}


def d_ring(s, w=3):
    q = [s.wire('q%d' % k, w) for k in range(3)]
    n = s.wire('n', w)
    Not(s, 'inv', q[2], n)
    e = s.wire('e', 1)
    Reg(s, 'r0', n, q[0], enable=e)
    Reg(s, 'r1', q[0], q[1])
    Reg(s, 'r2', q[1], q[2], enable=e)
    return {'ins': {'e': e}}


def d_mem(s, aw=1, dw=3):
    a = s.wire('a', aw)
    qa = s.wire('qa', aw)
    wr = s.wire('wr', 1)
    wd = s.wire('wd', dw)
    rd = s.wire('rd', dw)
    qo = s.wire('qo', dw)
    Reg(s, 'ra', a, qa)
    SynchronousMemory(s, 'mem', qa, a, wr, rd, wd)
    Reg(s, 'ro', rd, qo)
    return {'ins': {'a': a, 'wr': wr, 'wd': wd}}


def d_fsm(s):
    x = s.wire('x', 1)
    qx = s.wire('qx', 1)
    stop = s.wire('stop', 1)
    sync, active = s.wire('sync', 1), s.wire('active', 1)
    qa = s.wire('qa', 1)
    Reg(s, 'rx', x, qx)
    ClockSyncFSM(s, 'fsm', qx, stop, sync, active)
    Reg(s, 'ra', active, qa)
    return {'ins': {'x': x, 'stop': stop}}


def d_counter_edge(s, w=3):
    inc, rst = s.wire('inc', 1), s.wire('rst', 1)
    q = s.wire('q', w)
    Counter(s, 'cnt', rst, inc, q)
    b0 = s.wire('b0', 1)
    py4hw.Bit(s, 'b0', q, 0, b0)
    e = s.wire('edge', 1)
    EdgeDetector(s, 'ed', b0, e, 'both')
    z = s.wire('z', 1)
    Reg(s, 'rz', e, z)
    return {'ins': {'inc': inc, 'rst': rst}}


def d_seq(s, w=3):
    v = s.wire('v', w)
    Sequence(s, 'seq', [1, 5, 2], v)
    q = s.wire('q', w)
    Reg(s, 'r', v, q)
    return {'ins': {}}


def d_bidir_bus(s, w=3):
    """a registered driver on a bidirectional net (hw.bidir_wire) read back through a pad buffer that only listens:
    a -> Reg r0 -> bus (BidirWire) -> BidirBuf(poe=0) -> pin -> Reg r1 -> out, next to the same path on plain wires"""
    from py4hw.logic.bitwise import BidirBuf, Buf
    a = s.wire('a', w)
    bus = s.bidir_wire('bus', w)
    pin, out = s.wire('pin', w), s.wire('out', w)
    poutc, poec = s.wire('poutc', w), s.wire('poec', 1)
    Constant(s, 'poutc', 0, poutc)
    Constant(s, 'poec', 0, poec)
    Reg(s, 'r0', a, bus)
    BidirBuf(s, 'pad', pin, poutc, poec, bus)
    Reg(s, 'r1', pin, out)
    pbus, ppin, pout = s.wire('pbus', w), s.wire('ppin', w), s.wire('pout', w)
    Reg(s, 'p0', a, pbus)
    Buf(s, 'pbuf', pbus, ppin)
    Reg(s, 'p1', ppin, pout)
    return {'ins': {'a': a}}


class MoorePhase(Logic):
    """Moore-style behavioural leaf: clock() moves the state, propagate() decodes the outputs from the state (the style of the
    library's HIL/AXI wrappers).  Instantiated FIRST in its design, before every reader of a sequential output."""

    def __init__(self, parent, name, adv, ph, last):
        super().__init__(parent, name)
        self.adv = self.addIn('adv', adv)
        self.ph = self.addOut('ph', ph)
        self.last = self.addOut('last', last)
        self.state = 0

    def clock(self):
        if self.adv.get():
            self.state = (self.state + 1) & 3

    def propagate(self):
        self.ph.put(self.state)
        self.last.put(1 if self.state == 3 else 0)


def d_moore_first(s):
    adv = s.wire('adv', 1)
    ph, last = s.wire('ph', 2), s.wire('last', 1)
    MoorePhase(s, 'fsm', adv, ph, last)
    q0, q1, n = s.wire('q0', 2), s.wire('q1', 2), s.wire('n', 2)
    Reg(s, 'r0', ph, q0, enable=last)
    Reg(s, 'r1', q0, q1)
    py4hw.Not(s, 'inv', q1, n)
    return {'ins': {'adv': adv}}


def d_two_domains(s, w=3, gate='input', enw=1):
    """top-level Reg chain crossing into a Box that has its own (gated) clock driver"""
    a = s.wire('a', w)
    q0 = s.wire('q0', w)
    Reg(s, 'r0', a, q0)
    o = s.wire('o', w)
    ins = {'a': a}
    if gate == 'input':
        en = s.wire('en', enw)
        ins['en'] = en
    else:
        en = s.wire('en', enw)

    def body(b):
        m = b.wire('m', w)
        Reg(b, 'g0', q0, m)
        Reg(b, 'g1', m, o)
        if gate == 'inside':
            # enable produced by a register of the gated domain itself
            ne = b.wire('ne', enw)
            Not(b, 'ne', en, ne)
            t = b.wire('t', enw)
            Or2(b, 't', ne, zx_wire(b, m, enw), t)
            Reg(b, 'ge', t, en)
    outs = {'o': o}
    if gate == 'inside':
        outs['en'] = en
    box = Box(s, 'box', {'q0': q0} if gate != 'input' else {'q0': q0, 'en': en}, outs, body)
    q1 = s.wire('q1', w)
    Reg(s, 'r1', o, q1)
    return {'ins': ins, 'box': box, 'en': en}


def zx_wire(parent, w, n):
    if w.getWidth() == n:
        return w
    r = parent.wire('zx_' + w.name, n)
    py4hw.Range(parent, 'zx_' + w.name, w, n - 1, 0, r) if w.getWidth() > n else py4hw.ZeroExtend(parent, 'zx_' + w.name, w, r)
    return r


def d_reset_chain(s, w=3):
    """a register with synchronous reset feeding registers/recorders that are not reset"""
    from py4hw.logic.simulation import StreamCapture
    a, rst, e = s.wire('a', w), s.wire('rst', 1), s.wire('e', 1)
    qa, qb, qc = s.wire('qa', w), s.wire('qb', w), s.wire('qc', w)
    Reg(s, 'ra', a, qa, reset=rst, reset_value=5)
    Reg(s, 'rb', qa, qb)
    Reg(s, 'rc', qb, qc, enable=e, reset=rst, reset_value=2)
    StreamCapture(s, 'cap', qa)
    return {'ins': {'a': a, 'rst': rst, 'e': e}}


def d_mem_regs(s):
    """memory whose address, data and write strobe come from registers with different controls"""
    a, wd, we, rst = s.wire('a', 1), s.wire('wd', 2), s.wire('we', 1), s.wire('rst', 1)
    qa, qd, qw, rd, qo = s.wire('qa', 1), s.wire('qd', 2), s.wire('qw', 1), s.wire('rd', 2), s.wire('qo', 2)
    Reg(s, 'ra', a, qa, reset=rst)
    Reg(s, 'rd_', wd, qd, enable=we)
    Reg(s, 'rw', we, qw, reset=rst, reset_value=1)
    SynchronousMemory(s, 'mem', qa, qa, qw, rd, qd)
    Reg(s, 'ro', rd, qo)
    return {'ins': {'a': a, 'wd': wd, 'we': we, 'rst': rst}}


def random_design(seed, nreg_max=4):
    """seeded random design: registers (random enable/reset/reset value), an optional memory / FSM / stimulus leaf,
    combinational blocks in between; feedback only through sequential leaves.  Returns a builder f(parent)->{'ins':...}"""
    import random

    def build(s):
        rnd = random.Random('design/%s' % seed)
        w = rnd.choice([1, 2, 3, 4])
        ins = {'i%d' % k: s.wire('i%d' % k, w) for k in range(rnd.randint(1, 2))}
        c = s.wire('c', 1)
        r = s.wire('r', 1)
        ins['c'] = c
        ins['r'] = r
        nreg = rnd.randint(2, nreg_max)
        qs = [s.wire('q%d' % k, w) for k in range(nreg)]
        pool = list(ins[n] for n in ins if n not in ('c', 'r')) + qs
        extra = rnd.choice(['none', 'mem', 'fsm', 'seq', 'none'])
        if extra == 'mem' and w >= 1:
            rd = s.wire('rd', w)
            pool.append(rd)
        if extra == 'fsm':
            sy, ac = s.wire('sy', 1), s.wire('ac', 1)
        if extra == 'seq':
            sv = s.wire('sv', w)
            pool.append(sv)
        for j in range(rnd.randint(1, 4)):
            t = s.wire('t%d' % j, w)
            a, b = rnd.choice(pool), rnd.choice(pool)
            op = rnd.choice(['and', 'or', 'not', 'add', 'mux', 'sub'])
            if op == 'and':
                And2(s, 'u%d' % j, a, b, t)
            elif op == 'or':
                Or2(s, 'u%d' % j, a, b, t)
            elif op == 'not':
                Not(s, 'u%d' % j, a, t)
            elif op == 'add':
                Add(s, 'u%d' % j, a, b, t)
            elif op == 'sub':
                py4hw.Sub(s, 'u%d' % j, a, b, t)
            else:
                Mux2(s, 'u%d' % j, c, a, b, t)
            pool.append(t)
        for k, q in enumerate(qs):
            d = rnd.choice(pool)
            kind = rnd.choice(['plain', 'en', 'rst', 'both'])
            Reg(s, 'reg%d' % k, d, q, enable=c if kind in ('en', 'both') else None, reset=r if kind in ('rst', 'both') else None,
                reset_value=rnd.choice([None, 1]) if kind in ('rst', 'both') else None)
        if extra == 'mem':
            a1 = s.wire('a1', 1)
            py4hw.Bit(s, 'a1', rnd.choice(pool), 0, a1)
            SynchronousMemory(s, 'mem', a1, a1, c, rd, rnd.choice(pool))
        if extra == 'fsm':
            b0, b1 = s.wire('b0', 1), s.wire('b1', 1)
            py4hw.Bit(s, 'b0', rnd.choice(pool), 0, b0)
            py4hw.Bit(s, 'b1', rnd.choice(pool), 0, b1)
            ClockSyncFSM(s, 'fsm', b0, b1, sy, ac)
            qa = s.wire('qa', 1)
            Reg(s, 'rfsm', ac, qa)
        if extra == 'seq':
            Sequence(s, 'seq', [1, 0, 3 % (1 << w)], sv)
        return {'ins': ins}
    return build


DESIGNS = {
    'reset-chain': d_reset_chain,
    'regs-mem-reg': d_mem_regs,
    'chain3': lambda s: d_chain(s, 4, 3),
    'chain5': lambda s: d_chain(s, 2, 5),
    'swap': d_swap,
    'ring': d_ring,
    'reg-mem-reg': d_mem,
    'reg-fsm-reg': d_fsm,
    'counter-edge-reg': d_counter_edge,
    'sequence-reg': d_seq,
    'registered driver on a bidirectional net': d_bidir_bus,
    'Moore-style leaf (clock + propagate) instantiated first': d_moore_first,
}
