"""
C05 -- clock edges are atomic: every sequential block sees pre-edge values.

(a) local: for every sequential leaf class (found by reflection) the real clock() is executed
    from a symbolic state on every feasible path: no Wire.value may change, every written wire
    appears in Wire.prepared exactly once.
(b) system: designs with several sequential leaves; symbolic pre-state and inputs; for EVERY
    permutation of the simulator's clockables (and of the clock-driver dict) one real clk(1) must
    give post-state terms equal to those of the creation order (solver), Wire.prepared empty,
    every prepared value visible.
(c) clk(n) versus n x clk(1) with the same symbolic inputs.
"""
import inspect
import itertools
import pkgutil
import importlib
import sys

import z3

from . import common
from .comb import quiet
from . import designs as D
from symx import core, symsim
from symx.core import ctx, run_paths, SymInt, SymBool

import py4hw
from py4hw.base import Wire, Logic

PROP = 'C05'


# ---------------------------------------------------------------------------------------------------
# (a) local obligations per sequential leaf class

def seq_classes():
    mods = ['py4hw.logic.storage', 'py4hw.logic.clock', 'py4hw.logic.simulation', 'py4hw.logic.arithmetic',
            'py4hw.logic.bitwise', 'py4hw.logic.relational', 'py4hw.logic.protocol.uart.serdes',
            'py4hw.logic.protocol.uart.clock', 'py4hw.logic.protocol.uart.sequencer',
            'py4hw.emulation.HILWrapperUART', 'py4hw.emulation.vitiswrapping']
    found = {}
    for m in mods:
        try:
            mod = importlib.import_module(m)
        except Exception:
            continue
        for n, c in vars(mod).items():
            if inspect.isclass(c) and issubclass(c, Logic) and 'clock' in c.__dict__ and c.__module__ == m:
                found[c.__module__ + '.' + c.__name__] = c
    return found


def W(s, n, w=1):
    return s.wire(n, w)


def leaf_builders():
    from py4hw.logic.storage import Reg, SynchronousMemory, DualPortSynchronousMemory
    from py4hw.logic.clock import AutoReset
    from py4hw.logic.simulation import Sequence, Waveform, StreamCapture, StreamCaptureSigned
    from py4hw.logic.protocol.uart.serdes import UARTSerializer, UARTDeserializer
    from py4hw.logic.protocol.uart.clock import ClockSyncFSM
    from py4hw.logic.protocol.uart.sequencer import MsgSequencer
    from py4hw.emulation.HILWrapperUART import CMDRequest, CMDResponse
    from py4hw.emulation.vitiswrapping import Axi2ClkFSM, VitisKernelFSM
    B = {}
    B['py4hw.logic.storage.Reg'] = [
        ('e+r', lambda s: Reg(s, 'dut', W(s, 'd', 4), W(s, 'q', 4), enable=W(s, 'e'), reset=W(s, 'r'), reset_value=5), {}),
        ('plain', lambda s: Reg(s, 'dut', W(s, 'd', 4), W(s, 'q', 4)), {})]
    B['py4hw.logic.storage.SynchronousMemory'] = [
        ('aw2', lambda s: SynchronousMemory(s, 'dut', W(s, 'ra', 2), W(s, 'wa', 2), W(s, 'wr'), W(s, 'rd', 3), W(s, 'wd', 3)), {})]
    B['py4hw.logic.storage.DualPortSynchronousMemory'] = [
        ('aw1', lambda s: DualPortSynchronousMemory(s, 'dut', W(s, 'raa', 1), W(s, 'waa', 1), W(s, 'wra'), W(s, 'rda', 2), W(s, 'wda', 2),
                                                    W(s, 'rab', 1), W(s, 'wab', 1), W(s, 'wrb'), W(s, 'rdb', 2), W(s, 'wdb', 2)), {})]
    B['py4hw.logic.clock.AutoReset'] = [('', lambda s: AutoReset(s, 'dut', W(s, 'reset')), {'state': (0, 3)})]
    B['py4hw.logic.simulation.Sequence'] = [
        ('loop', lambda s: Sequence(s, 'dut', [3, 1, 2], W(s, 'r', 2)), {'i': (0, 2)}),
        ('once', lambda s: Sequence(s, 'dut', [3, 1, 2], W(s, 'r', 2), once=True), {'i': (0, 2)})]
    B['py4hw.logic.simulation.Waveform'] = [('', lambda s: Waveform(s, 'dut', [W(s, 'a', 3), W(s, 'b', 1)]), {})]
    B['py4hw.logic.simulation.StreamCapture'] = [('', lambda s: StreamCapture(s, 'dut', W(s, 'x', 3)), {})]
    B['py4hw.logic.simulation.StreamCaptureSigned'] = [('', lambda s: StreamCaptureSigned(s, 'dut', W(s, 'x', 3)), {})]
    B['py4hw.logic.protocol.uart.serdes.UARTSerializer'] = [
        ('', lambda s: UARTSerializer(s, 'dut', W(s, 'ready'), W(s, 'valid'), W(s, 'v', 8), W(s, 'pe'), W(s, 'tx')),
         {'state': (0, 6), 'count': (0, 7), 'txv': (0, 255)})]
    B['py4hw.logic.protocol.uart.serdes.UARTDeserializer'] = [
        ('', lambda s: UARTDeserializer(s, 'dut', W(s, 'rx'), W(s, 'rxs'), W(s, 'ready'), W(s, 'valid'), W(s, 'v', 8), W(s, 'ds')),
         {'state': (0, 3), 'count': (0, 8), 'state_v': (0, 3), 'temp': (0, 255)})]
    B['py4hw.logic.protocol.uart.clock.ClockSyncFSM'] = [
        ('', lambda s: ClockSyncFSM(s, 'dut', W(s, 'start'), W(s, 'stop'), W(s, 'sync'), W(s, 'active')), {'state': (0, 2)})]
    B['py4hw.logic.protocol.uart.sequencer.MsgSequencer'] = [
        ('', lambda s: MsgSequencer(s, 'dut', W(s, 'ready'), W(s, 'valid'), W(s, 'v', 8), 'Hi!'), {'state': (0, 2), 'count': (0, 2)})]
    B['py4hw.emulation.HILWrapperUART.CMDRequest'] = [
        ('', lambda s: CMDRequest(s, 'dut', W(s, 'ready'), W(s, 'valid'), W(s, 'c', 8), W(s, 'ii', 8), W(s, 'vi', 16), W(s, 'io', 8),
                                  W(s, 'sii'), W(s, 'svi'), W(s, 'sio'), W(s, 'ck'), W(s, 'sr')),
         {'state': (0, 11), 'cur_type': (0, 4), 'new_c': (0, 255), 'temp': (0, 65535)})]
    B['py4hw.emulation.HILWrapperUART.CMDResponse'] = [
        ('', lambda s: CMDResponse(s, 'dut', W(s, 'vin', 16), W(s, 'size', 3), W(s, 'sr'), W(s, 'ready'), W(s, 'valid'), W(s, 'v', 8)),
         {'state': (0, 7), 'temp': (0, 65535), 'temp_size': (0, 3), 'aux': (0, 15)})]
    B['py4hw.emulation.vitiswrapping.Axi2ClkFSM'] = [
        ('', lambda s: Axi2ClkFSM(s, 'dut', W(s, 'ah'), W(s, 'ct', 4), W(s, 'rc'), W(s, 'cc', 4), W(s, 'co'), W(s, 'lo')),
         {'state': (0, 4), 'target': (0, 15)})]
    B['py4hw.emulation.vitiswrapping.VitisKernelFSM'] = [
        ('', lambda s: VitisKernelFSM(s, 'dut', W(s, 'st'), W(s, 'rs'), W(s, 'dn'), W(s, 'idl'), W(s, 'rdy'), W(s, 'lo'), W(s, 'as_')),
         {'state': (0, 4)})]
    return B


def local_task(p, cfg, rec):
    build, ranges = cfg['build'], cfg['ranges']
    with quiet():
        s = py4hw.HWSystem()
        leaf = build(s)
    rec.add('%s.%s.clock' % (type(leaf).__module__, type(leaf).__name__))
    wires = symsim.leaf_wires(leaf)
    # symbolic everything: port wires and the attributes assigned in clock()
    for w in wires:
        x, v = core.fresh('w_' + w.name, w.getWidth())
        w.value = x
    for a in D.attrs_assigned_in_clock(type(leaf)):
        cur = leaf.__dict__.get(a)
        if isinstance(cur, bool):
            continue
        if isinstance(cur, int):
            if a in ranges:
                x, v = core.fresh_range('a_' + a, ranges[a][0], ranges[a][1])
            elif isinstance(leaf, py4hw.Reg) and a == 'value':
                x = leaf.q.value
            else:
                x, v = core.fresh('a_' + a, 8)
            setattr(leaf, a, x)
        elif isinstance(cur, list) and cur and all(isinstance(e, int) for e in cur):
            dw = leaf.outPorts[0].wire.getWidth() if leaf.outPorts else 8
            setattr(leaf, a, [core.fresh('a_%s_%d' % (a, k), dw)[0] for k in range(len(cur))])
    Wire.prepared = []
    pre_vals = [w.value for w in wires]
    region = symsim.Region([leaf], wires)
    pre = region.snapshot()
    # Waveform keeps its samples in a dict of lists: reset between paths by hand
    with quiet():
        res = run_paths(leaf.clock, restore=lambda _s: region.restore(pre), capture=lambda: (
            [w.value for w in wires], list(Wire.prepared), [w.__dict__.get('next', None) for w in wires]))
    region.restore(pre)
    Wire.prepared = []
    p.res['states'] += 1
    p.res['transitions'] += len(res)
    for k, r in enumerate(res):
        if r.exc is not None:
            # an exception on a feasible path of clock(): report with a model
            rr, m = p.satisfiable(r.pc)
            p.structural('path %d: clock() completes' % k, False, detail={'exception': repr(r.exc)})
            continue
        vals, prepared, nexts = r.state
        changed = [w.getFullPath() for w, a, b in zip(wires, pre_vals, vals) if not core.same_value(a, b)]
        p.structural('path %d/%d: clock() leaves every Wire.value untouched' % (k + 1, len(res)), not changed,
                     detail={'changed': changed, 'class': type(leaf).__name__})
        dup = [w.getFullPath() for w in prepared if sum(1 for x in prepared if x is w) > 1]
        p.structural('path %d/%d: every written wire is prepared exactly once' % (k + 1, len(res)), not dup,
                     detail={'prepared twice': dup})
        foreign = [w.getFullPath() for w in prepared if not any(w is o.wire for o in leaf.outPorts)]
        p.structural('path %d/%d: only own output wires are prepared' % (k + 1, len(res)), not foreign,
                     detail={'foreign': foreign})


# ---------------------------------------------------------------------------------------------------
# (b) system obligations: all evaluation orders

def designs_b(tier='quick'):
    d = dict(D.DESIGNS)
    d['two-domains'] = lambda s: two_dom(s)
    d['gate toggled by a base-domain register'] = self_gated
    for k in range(6 if tier == 'quick' else 60):
        d['random#%d' % k] = D.random_design(k)
    return d


def self_gated(s):
    """a gated domain whose enable is a register of the base domain that toggles every cycle, so the gate
    changes in the middle of a multi-cycle clk(n) call"""
    from py4hw.logic.bitwise import Not
    from py4hw.logic.storage import Reg
    a = s.wire('a', 3)
    tq, tn = s.wire('tq', 1), s.wire('tn', 1)
    Not(s, 'tn', tq, tn)
    Reg(s, 'tog', tn, tq)
    q0, o = s.wire('q0', 3), s.wire('o', 3)
    Reg(s, 'r0', a, q0)

    def body(b):
        m = b.wire('m', 3)
        Reg(b, 'g0', q0, m)
        Reg(b, 'g1', m, o)
    box = D.Box(s, 'box', {'q0': q0, 'en': tq}, {'o': o}, body)
    box.clockDriver = py4hw.ClockDriver('gck', base=s.clockDriver, enable=tq)
    return {'ins': {'a': a}}


def two_dom(s):
    r = D.d_two_domains(s, 3, 'input', 1)
    r['box'].clockDriver = py4hw.ClockDriver('gck', base=s.clockDriver, enable=r['en'])
    return r


def run_order(build, perm_idx, drv_rev, values=None, rec=None):
    """build the design, load (symbolic or concrete) state/inputs, permute the clockables, clk(1).
    returns (snapshot, vars, prepared_left)"""
    with quiet():
        s = py4hw.HWSystem()
        d = build(s)
        if values is None:
            symsim.instrument(s, rec)
        sim = s.getSimulator()
    vars_ = {}
    if values is None:
        sv = D.symbolize_state(s)
        vars_.update(sv)
        Iw = symsim.poke_fresh(list(d['ins'].values()), 'i_')
        vars_.update(('i:' + n, Iw[w]) for n, w in d['ins'].items())
    else:
        D.load_concrete_state(s, values)
        for n, w in d['ins'].items():
            w.put(values.get('i:' + n, 0))
    # permute
    drvs = list(sim.clockDrivers.items())
    if drv_rev:
        drvs.reverse()
    sim.clockDrivers = dict(drvs)
    allc = []
    for drv, cds in sim.clockDrivers.items():
        allc.append(cds)
    # perm_idx: a permutation of the concatenated index space applied per driver
    for cds, perm in zip(allc, perm_idx):
        cds.clockables = [cds.clockables[i] for i in perm]
    Wire.prepared = []
    with quiet():
        if values is None and any(drv.enable is not None for drv in sim.clockDrivers):
            symsim.run_merged(lambda: sim.clk(1), symsim.system_region(s), where='clk(1)')
        else:
            sim.clk(1)
    return D.snapshot_all(s), vars_, list(Wire.prepared), sim, s


def order_task(p, cfg, rec):
    build = cfg['build']
    base, vars_, left, sim, s = run_order(build, cfg['identity'], False, rec=rec)
    p.structural('Wire.prepared is empty after clk()', left == [])
    snap, v2, left2, sim2, s2 = run_order(build, cfg['perm'], cfg['drv_rev'], rec=rec)
    p.structural('Wire.prepared is empty after clk() (permuted)', left2 == [])
    p.res['states'] += 1
    p.res['transitions'] += 2
    # same variable names were generated in both runs -> identical z3 constants
    conds = []
    names = []
    for k in base:
        c = D.differ(base[k], snap.get(k))
        if c is True:
            conds.append(z3.BoolVal(True))
            names.append(k)
        elif c is not False:
            conds.append(c)
            names.append(k)

    def replay(values):
        a = run_order(build, cfg['identity'], False, values=values)[0]
        b = run_order(build, cfg['perm'], cfg['drv_rev'], values=values)[0]
        diff = {k: (a[k], b[k]) for k in a if a[k] != b.get(k)}
        return {'differences': {k: list(v) for k, v in list(diff.items())[:6]}} if diff else None
    p.prove('post-state independent of the evaluation order (%d cells)' % len(base),
            z3.Or(*conds) if conds else z3.BoolVal(False), inputs=vars_, replay=replay)
    if cfg.get('first'):
        # every prepared value became visible: value == next for wires that have a next
        bad = []
        for w in symsim.all_wires(s):
            if 'next' in w.__dict__ and not core.same_value(w.value, w.next):
                c = D.differ(w.value, w.next)
                if c is not False:
                    bad.append(c if c is not True else z3.BoolVal(True))
        p.prove('every prepared update is visible after the edge', z3.Or(*bad) if bad else z3.BoolVal(False), inputs=vars_)


# ---------------------------------------------------------------------------------------------------
# (c) clk(n) == n x clk(1)

def split_task(p, cfg, rec):
    build, n, split = cfg['build'], cfg['n'], cfg['split']

    def run(chunks, values=None):
        with quiet():
            s = py4hw.HWSystem()
            d = build(s)
            if values is None:
                symsim.instrument(s, rec)
            sim = s.getSimulator()
        vars_ = {}
        if values is None:
            vars_.update(D.symbolize_state(s))
            Iw = symsim.poke_fresh(list(d['ins'].values()), 'i_')
            vars_.update(('i:' + nme, Iw[w]) for nme, w in d['ins'].items())
        else:
            D.load_concrete_state(s, values)
            for nme, w in d['ins'].items():
                w.put(values.get('i:' + nme, 0))
        with quiet():
            for c in chunks:
                if values is None and any(drv.enable is not None for drv in sim.clockDrivers):
                    for _ in range(1):
                        symsim.run_merged(lambda: sim.clk(c), symsim.system_region(s), where='clk')
                else:
                    sim.clk(c)
        snap = D.snapshot_all(s)
        snap['total_clks'] = sim.total_clks
        return snap, vars_
    a, vars_ = run([n])
    b, _ = run(split)
    p.res['states'] += 1
    p.res['transitions'] += 2 * n
    conds = []
    for k in a:
        c = D.differ(a[k], b.get(k))
        if c is True:
            conds.append(z3.BoolVal(True))
        elif c is not False:
            conds.append(c)

    def replay(values):
        x = run([n], values)[0]
        y = run(split, values)[0]
        diff = {k: (x[k], y[k]) for k in x if x[k] != y.get(k)}
        return {'differences': {k: list(v) for k, v in list(diff.items())[:6]}} if diff else None
    p.prove('clk(%d) == %s' % (n, '+'.join('clk(%d)' % c for c in split)), z3.Or(*conds) if conds else z3.BoolVal(False),
            inputs=vars_, replay=replay)


class _Stopper(py4hw.Logic):
    """a checker block that cancels the run from inside an edge (Simulator.stop() called in clock(), as a breakpoint block or a GUI
    thread would): the edge in progress must still complete as one atomic step"""

    def __init__(self, parent, name, a):
        super().__init__(parent, name)
        self.a = self.addIn('a', a)
        self.armed = False
        self.sim = None

    def clock(self):
        if self.armed:
            self.sim.stop()


def stop_task(p, cfg, rec):
    build, n = cfg['build'], cfg['n']

    def run(stopped, values=None):
        with quiet():
            s = py4hw.HWSystem()
            d = build(s)
            first_in = list(d['ins'].values())[0] if d['ins'] else s.wire('stop_in', 1)
            stopper = _Stopper(s, 'stopper', first_in)
            if values is None:
                symsim.instrument(s, rec)
            sim = s.getSimulator()
        stopper.sim = sim
        vars_ = {}
        if values is None:
            vars_.update(D.symbolize_state(s))
            Iw = symsim.poke_fresh(list(d['ins'].values()), 'i_')
            vars_.update(('i:' + nme, Iw[w]) for nme, w in d['ins'].items())
        else:
            D.load_concrete_state(s, values)
            for nme, w in d['ins'].items():
                w.put(values.get('i:' + nme, 0))
        Wire.prepared = []
        with quiet():
            if stopped:
                stopper.armed = True
                sim.clk(n)                      # cancelled from inside its first edge
                stopper.armed = False
            else:
                sim.clk(1)
        mid = D.snapshot_all(s)
        mid['total_clks'] = sim.total_clks
        left = list(Wire.prepared)
        with quiet():
            sim.clk(n - 1)                      # the run is resumed
        end = D.snapshot_all(s)
        end['total_clks'] = sim.total_clks
        return mid, end, left, vars_
    m1, e1, left1, vars_ = run(True)
    m0, e0, left0, _ = run(False)
    p.res['states'] += 1
    p.res['transitions'] += 2 * n
    p.structural('nothing is left in Wire.prepared after a clk() call that was cancelled from inside an edge', left1 == [], detail={'left': [w.getFullPath() for w in left1]})

    def cmp(a, b):
        cs = []
        for k in a:
            c = D.differ(a[k], b.get(k))
            if c is True:
                cs.append(z3.BoolVal(True))
            elif c is not False:
                cs.append(c)
        return z3.Or(*cs) if cs else z3.BoolVal(False)

    def replay(values):
        x = run(True, values)
        y = run(False, values)
        for lab, i in (('after the cancelled call', 0), ('after the resumed run', 1)):
            diff = {k: (x[i][k], y[i][k]) for k in x[i] if x[i][k] != y[i].get(k)}
            if diff:
                return {'point': lab, 'differences': {k: list(v) for k, v in list(diff.items())[:6]}}
        return None
    p.prove('clk(%d) cancelled by stop() inside its first edge leaves exactly the state of clk(1)' % n, cmp(m1, m0), inputs=vars_, replay=replay)
    p.prove('resuming with clk(%d) gives the state of the uninterrupted run' % (n - 1), cmp(e1, e0), inputs=vars_, replay=replay)


class _Override(py4hw.Logic):
    """FSM style 'default assignment first, override later': the same output is prepared more than once in one edge (the library
    tolerates it with a warning); the LAST prepared value is the one that becomes visible, none may get lost"""

    def __init__(self, parent, name, a, busy, lvl):
        super().__init__(parent, name)
        self.a = self.addIn('a', a)
        self.busy = self.addOut('busy', busy)
        self.lvl = self.addOut('lvl', lvl)

    def clock(self):
        self.busy.prepare(0)
        if self.a.get() & 1:
            self.busy.prepare(1)
        self.lvl.prepare(0)
        self.lvl.prepare(self.a.get() >> 1)
        if self.a.get() == 7:
            self.lvl.prepare(5)


def override_task(p, cfg, rec):
    from py4hw.logic.storage import Reg
    def run(values=None):
        with quiet():
            s = py4hw.HWSystem()
            a, busy, lvl, q = s.wire('a', 3), s.wire('busy', 1), s.wire('lvl', 3), s.wire('q', 3)
            _Override(s, 'fsm', a, busy, lvl)
            Reg(s, 'r', lvl, q, enable=busy)
            if values is None:
                symsim.instrument(s, rec)
            sim = s.getSimulator()
        vars_ = {}
        outs = []
        for k in range(2):
            if values is None:
                x, v = core.fresh('a%d' % k, 3)
                vars_['a%d' % k] = v
            else:
                x = values.get('a%d' % k, 0)
            a.put(x)
            with quiet():
                sim.clk(1)
            outs.append((busy.get(), lvl.get(), q.get()))
        return outs, vars_, list(Wire.prepared)
    Wire.prepared = []
    outs, vars_, left = run()
    p.res['states'] += 1
    p.res['transitions'] += 2
    p.structural('Wire.prepared is empty after the edges', left == [])
    a0, a1 = vars_['a0'], vars_['a1']

    def lvl_of(a):
        return z3.If(a == 7, z3.BitVecVal(5, 3), z3.LShR(a, 1))
    want = [(z3.Extract(0, 0, a0), lvl_of(a0), None), (z3.Extract(0, 0, a1), lvl_of(a1), z3.If(z3.Extract(0, 0, a0) == 1, lvl_of(a0), z3.BitVecVal(0, 3)))]

    def replay(values):
        o, _, _ = run(values)
        exp = []
        prev_busy, prev_lvl, qv = 0, 0, 0
        for k in range(2):
            av = values.get('a%d' % k, 0)
            if prev_busy:
                qv = prev_lvl
            prev_busy, prev_lvl = av & 1, (5 if av == 7 else av >> 1)
            exp.append((prev_busy, prev_lvl, qv))
        return None if [tuple(x) for x in o] == exp else {'observed (busy, lvl, q) per edge': [list(x) for x in o], 'expected': [list(x) for x in exp]}
    from .seq import neq
    for k in range(2):
        p.prove('edge %d: busy shows the last value prepared in that edge' % (k + 1), neq(outs[k][0], want[k][0]), inputs=vars_, replay=replay)
        p.prove('edge %d: lvl shows the last of its two or three prepared values' % (k + 1), neq(outs[k][1], want[k][1]), inputs=vars_, replay=replay)
    p.prove('edge 2: the register behind sees the values of edge 1', neq(outs[1][2], want[1][2]), inputs=vars_, replay=replay)


def tasks_for(tier):
    quick = tier == 'quick'
    tasks = []
    B = leaf_builders()
    classes = seq_classes()
    uncovered = sorted(set(classes) - set(B))
    for cname in sorted(set(classes) & set(B)):
        for vname, build, ranges in B[cname]:
            tasks.append(('local %s %s' % (cname, vname), local_task, {'build': build, 'ranges': ranges}))
    import random
    rnd = random.Random(5)
    for dname, build in designs_b(tier).items():
        # count clockables per driver
        with quiet():
            s = py4hw.HWSystem()
            build(s)
            sim = s.getSimulator()
        sizes = [len(c.clockables) for c in sim.clockDrivers.values()]
        ident = [list(range(n)) for n in sizes]
        perms_per = [list(itertools.permutations(range(n))) for n in sizes]
        combos = list(itertools.product(*perms_per))
        limit = 40 if quick else 800
        if len(combos) > limit:
            keep = [combos[0], combos[-1]] + rnd.sample(combos[1:-1], limit - 2)
            combos = keep
        first = True
        for ci, combo in enumerate(combos):
            for drv_rev in ([False, True] if len(sizes) > 1 else [False]):
                if combo == tuple(tuple(i) for i in ident) and not drv_rev:
                    continue
                tasks.append(('order %s perm%s%s' % (dname, '|'.join(''.join(map(str, c)) for c in combo), ' drvrev' if drv_rev else ''),
                              order_task, {'build': build, 'identity': ident, 'perm': [list(c) for c in combo], 'drv_rev': drv_rev,
                                           'first': first}))
                first = False
        for n in ((2, 3) if quick else (2, 3, 4)):
            splits = [[1] * n] + ([[1, n - 1], [n - 1, 1]] if n > 2 else [])
            for sp in splits:
                tasks.append(('split %s clk(%d) vs %s' % (dname, n, '+'.join(map(str, sp))), split_task,
                              {'build': build, 'n': n, 'split': sp}))
    tasks.append(('one output prepared several times in one edge (default first, override later)', override_task, {}))
    for dname in ('chain3', 'reset-chain', 'sequence-reg', 'reg-fsm-reg') if quick else sorted(D.DESIGNS):
        tasks.append(('stop() from inside an edge, then resume: %s' % dname, stop_task, {'build': D.DESIGNS[dname], 'n': 3}))
    # memories keep their state outside wires: "pre-edge values" includes the stored words (a read returns the content
    # before a same-cycle write, on either port) - the C09 reference machines of the memory blocks are run here as well
    from . import c09
    from .seq import seq_task
    for name, cfg in c09.cfgs(tier):
        if 'Memory' in name:
            tasks.append(('memory reads pre-edge content: %s' % name, seq_task, cfg))
    return tasks, uncovered


def main(argv=None):
    args = common.parse_args(PROP, argv)
    tasks, uncovered = tasks_for(args.tier)
    return common.run_check(
        PROP, 'model_checking', tasks, args, design_ref='DESIGN.md section 3 (C05)',
        technique='symbolic execution of the real clock()/Simulator._clk_cycle from a symbolic pre-state; solver equality of post-state terms across all evaluation orders',
        assumptions=['pre-state: every attribute assigned in clock() and every register-driven wire symbolic (Reg.value == q)',
                     'listeners do not mutate wires; BidirWire outside'],
        bounds={'designs': sorted(designs_b(args.tier)), 'orders': 'all permutations of the clockables of each driver (capped at 40 quick / 800 thorough per design, seeded sample above the cap) and both driver orders',
                'history': 'one step from an arbitrary state (induction over edges); clk(n) splittings for n <= 3 / 4'},
        trusted_base=['z3', 'symx operator semantics and fork-and-merge shell'],
        extra_coverage={'sequential_leaf_classes_found': sorted(seq_classes()), 'classes_without_local_harness': uncovered})


if __name__ == '__main__':
    sys.exit(main())
