"""
C07 -- integer arithmetic blocks compute their mathematical function for all inputs.

For every (block, width tuple, option set) the real block is simulated on fresh symbols and
each output term is proved equal to a reference written on z3 terms (independent of py4hw).
"""
import itertools
import sys

import z3

from . import common
from .comb import comb_task, zx, sx

import py4hw
from py4hw.logic.arithmetic import (Add, SignedAdd, AddCarryIn, Abs, Neg, Sign, SignExtend, ZeroExtend, Mul,
                                    SignedMul, Div, Mod, SignedDiv, Sub, SubBorrowIn, SignedSub, ShiftRight, ShiftLeft,
                                    RotateRight, RotateLeft, BinaryToBCD, CountLeadingZeros)
from py4hw.logic.bitwise import (ShiftLeftConstant, ShiftRightConstant, RotateLeftConstant, RotateRightConstant)

PROP = 'C07'


def W(s, name, w):
    return s.wire(name, w)


def cfgs(tier):
    """yield (name, cfg)"""
    quick = tier == 'quick'
    ws = [1, 2, 3, 4, 5, 8] if quick else [1, 2, 3, 4, 5, 6, 7, 8, 9, 10, 11, 12]
    big = [] if quick else [16, 24, 32]

    # ---- Add (ci/co), AddCarryIn -------------------------------------------------------
    def add_cfg(aw, bw, rw, ci, co):
        def build(s):
            a, b, r = W(s, 'a', aw), W(s, 'b', bw), W(s, 'r', rw)
            ins = {'a': a, 'b': b}
            outs = {'r': r}
            ciw = cow = None
            if ci:
                ciw = W(s, 'ci', ci)                   # ci = width of the carry-in wire (the whole value is added)
                ins['ci'] = ciw
            if co:
                cow = W(s, 'co', 1)
                outs['co'] = cow
            Add(s, 'dut', a, b, r, ci=ciw, co=cow)
            return ins, outs

        def spec(V):
            n = max(aw, bw, rw, ci) + 3
            t = zx(V['a'], n) + zx(V['b'], n)
            if ci:
                t = t + zx(V['ci'], n)
            o = {'r': z3.Extract(rw - 1, 0, t)}
            if co:
                o['co'] = z3.Extract(rw, rw, t)
            return o
        return {'build': build, 'spec': spec}

    mixed = list(itertools.product(ws, ws, ws)) if quick else \
        [(a, b, r) for a in ws for b in ws for r in ws if (a + b + r) % 2 == 0 or a == b == r or r == max(a, b) + 1]
    for aw, bw, rw in mixed + [(w, w, w) for w in big] + [(w, w, w + 1) for w in big]:
        for ci in (0, 1):
            for co in (0, 1):
                if quick and not (aw == bw or rw == max(aw, bw) or rw == max(aw, bw) + 1) and (ci or co):
                    continue
                yield 'Add a%d b%d r%d ci%d co%d' % (aw, bw, rw, ci, co), add_cfg(aw, bw, rw, ci, co)
    # carry-in wires wider than one bit
    for aw, bw, rw, ciw in ([(4, 4, 4, 2), (4, 4, 5, 3), (3, 5, 8, 2), (8, 8, 8, 4)] if quick else
                            [(4, 4, 4, 2), (4, 4, 5, 3), (3, 5, 8, 2), (8, 8, 8, 4), (1, 1, 3, 2), (5, 5, 5, 5), (2, 6, 6, 3)]):
        for co in (0, 1):
            yield 'Add a%d b%d r%d carry-in %d bits wide co%d' % (aw, bw, rw, ciw, co), add_cfg(aw, bw, rw, ciw, co)

    # ---- two-operand blocks ---------------------------------------------------------------
    def bin_cfg(cls, aw, bw, rw, fn, assume=None):
        def build(s):
            a, b, r = W(s, 'a', aw), W(s, 'b', bw), W(s, 'r', rw)
            cls(s, 'dut', a, b, r)
            return {'a': a, 'b': b}, {'r': r}
        c = {'build': build, 'spec': lambda V: {'r': fn(V['a'], V['b'], aw, bw, rw)}}
        if assume:
            c['assume'] = lambda V: assume(V['a'], V['b'])
        return c

    def f_sub(a, b, aw, bw, rw):
        n = max(aw, bw, rw) + 1
        return z3.Extract(rw - 1, 0, zx(a, n) - zx(b, n))

    def f_mul(a, b, aw, bw, rw):
        n = max(aw + bw, rw)
        return z3.Extract(rw - 1, 0, zx(a, n) * zx(b, n))

    def f_smul(a, b, aw, bw, rw):
        n = max(aw + bw, rw)
        return z3.Extract(rw - 1, 0, sx(a, n) * sx(b, n))

    def f_div(a, b, aw, bw, rw):
        n = max(aw, bw, rw)
        return z3.Extract(rw - 1, 0, z3.UDiv(zx(a, n), zx(b, n)))

    def f_mod(a, b, aw, bw, rw):
        n = max(aw, bw, rw)
        return z3.Extract(rw - 1, 0, z3.URem(zx(a, n), zx(b, n)))

    def f_sadd(a, b, aw, bw, rw):
        n = max(aw, bw, rw) + 1
        return z3.Extract(rw - 1, 0, sx(a, n) + sx(b, n))

    def f_ssub(a, b, aw, bw, rw):
        n = max(aw, bw, rw) + 1
        return z3.Extract(rw - 1, 0, sx(a, n) - sx(b, n))

    def f_sdiv(a, b, aw, bw, rw):
        n = max(aw, bw, rw) + 2
        return z3.Extract(rw - 1, 0, sx(a, n) / sx(b, n))       # bvsdiv truncates toward zero

    def subbi_cfg(aw, bw, rw):
        def build(s):
            a, b, r, bi = W(s, 'a', aw), W(s, 'b', bw), W(s, 'r', rw), W(s, 'bi', 1)
            SubBorrowIn(s, 'dut', a, b, r, bi)
            return {'a': a, 'b': b, 'bi': bi}, {'r': r}
        n = max(aw, bw, rw) + 2
        return {'build': build, 'spec': lambda V: {'r': z3.Extract(rw - 1, 0, zx(V['a'], n) - zx(V['b'], n) - zx(V['bi'], n))}}

    nz = lambda a, b: b != 0
    for aw, bw, rw in mixed + [(w, w, w) for w in big]:
        yield 'Sub a%d b%d r%d' % (aw, bw, rw), bin_cfg(Sub, aw, bw, rw, f_sub)
        if rw >= aw and (aw == bw or not quick):
            yield 'SubBorrowIn a%d b%d r%d' % (aw, bw, rw), subbi_cfg(aw, bw, rw)
        yield 'Mul a%d b%d r%d' % (aw, bw, rw), bin_cfg(Mul, aw, bw, rw, f_mul)
        yield 'SignedMul a%d b%d r%d' % (aw, bw, rw), bin_cfg(SignedMul, aw, bw, rw, f_smul)
        if rw >= aw and rw >= bw:
            yield 'SignedAdd a%d b%d r%d' % (aw, bw, rw), bin_cfg(SignedAdd, aw, bw, rw, f_sadd)
            yield 'SignedSub a%d b%d r%d' % (aw, bw, rw), bin_cfg(SignedSub, aw, bw, rw, f_ssub)
        if max(aw, bw, rw) <= 12:
            yield 'Div a%d b%d r%d' % (aw, bw, rw), bin_cfg(Div, aw, bw, rw, f_div, nz)
            yield 'Mod a%d b%d r%d' % (aw, bw, rw), bin_cfg(Mod, aw, bw, rw, f_mod, nz)
            if max(aw, bw, rw) <= (8 if quick else 12):
                yield 'SignedDiv a%d b%d r%d' % (aw, bw, rw), bin_cfg(SignedDiv, aw, bw, rw, f_sdiv, nz)

    # SignedAdd with carry ports (standard two's complement adder carry of the extended operands)
    def sadd_cfg(aw, bw, rw, ci, co):
        def build(s):
            a, b, r = W(s, 'a', aw), W(s, 'b', bw), W(s, 'r', rw)
            ins = {'a': a, 'b': b}
            outs = {'r': r}
            ciw = cow = None
            if ci:
                ciw = W(s, 'ci', 1)
                ins['ci'] = ciw
            if co:
                cow = W(s, 'co', 1)
                outs['co'] = cow
            SignedAdd(s, 'dut', a, b, r, ci=ciw, co=cow, width_check=False)
            return ins, outs

        def spec(V):
            n = rw + 2
            t = zx(sx(V['a'], rw), n) + zx(sx(V['b'], rw), n)
            if ci:
                t = t + zx(V['ci'], n)
            o = {'r': z3.Extract(rw - 1, 0, t)}
            if co:
                o['co'] = z3.Extract(rw, rw, t)
            return o
        return {'build': build, 'spec': spec}
    for aw, bw, rw in [(2, 2, 2), (3, 2, 4), (4, 4, 4), (4, 4, 5), (8, 8, 8), (5, 8, 8)]:
        for ci, co in ((1, 0), (0, 1), (1, 1)):
            yield 'SignedAdd a%d b%d r%d ci%d co%d' % (aw, bw, rw, ci, co), sadd_cfg(aw, bw, rw, ci, co)

    # ---- one-operand blocks ---------------------------------------------------------------
    def un_cfg(cls, aw, rw, fn, outs_extra=None):
        def build(s):
            a, r = W(s, 'a', aw), W(s, 'r', rw)
            cls(s, 'dut', a, r)
            return {'a': a}, {'r': r}
        return {'build': build, 'spec': lambda V: {'r': fn(V['a'], aw, rw)}}

    def f_neg(a, aw, rw):
        n = max(aw, rw) + 1
        return z3.Extract(rw - 1, 0, -zx(a, n))

    def f_abs(a, aw, rw):
        n = max(aw, rw) + 1
        t = sx(a, n)
        return z3.Extract(rw - 1, 0, z3.If(t < 0, -t, t))

    def f_sext(a, aw, rw):
        return sx(a, rw)

    def f_zext(a, aw, rw):
        return zx(a, rw)

    pairs = [(a, r) for a in ws + big for r in ws + big if abs(a - r) <= 8 or r in (1, 32) or a in (1, 32)]
    for aw, rw in pairs:
        # Neg/Abs for rw != aw: operand read as unsigned for Neg (0 - a), signed for Abs -- readings noted in DESIGN.md
        yield 'Neg a%d r%d' % (aw, rw), un_cfg(Neg, aw, rw, f_neg)
        yield 'Abs a%d r%d' % (aw, rw), un_cfg(Abs, aw, rw, f_abs)
        yield 'SignExtend a%d r%d' % (aw, rw), un_cfg(SignExtend, aw, rw, f_sext)
        yield 'ZeroExtend a%d r%d' % (aw, rw), un_cfg(ZeroExtend, aw, rw, f_zext)

    def abs_inv_cfg(aw):
        def build(s):
            a, r, i = W(s, 'a', aw), W(s, 'r', aw), W(s, 'inv', 1)
            Abs(s, 'dut', a, r, inverted=i)
            return {'a': a}, {'r': r, 'inv': i}
        return {'build': build, 'spec': lambda V: {'r': f_abs(V['a'], aw, aw), 'inv': z3.Extract(aw - 1, aw - 1, V['a'])}}

    def sign_cfg(aw):
        def build(s):
            a, r = W(s, 'a', aw), W(s, 'r', 1)
            Sign(s, 'dut', a, r)
            return {'a': a}, {'r': r}
        return {'build': build, 'spec': lambda V: {'r': z3.Extract(aw - 1, aw - 1, V['a'])}}
    for aw in ws + big:
        yield 'Abs+inverted a%d' % aw, abs_inv_cfg(aw)
        yield 'Sign a%d' % aw, sign_cfg(aw)

    # ---- constant shifts / rotations ---------------------------------------------------------
    def shk_cfg(cls, aw, rw, n, fn):
        def build(s):
            a, r = W(s, 'a', aw), W(s, 'r', rw)
            cls(s, 'dut', a, n, r)
            return {'a': a}, {'r': r}
        return {'build': build, 'spec': lambda V: {'r': fn(V['a'], aw, rw, n)}}

    def f_shl(a, aw, rw, n):
        m = max(aw, rw) + n + 1
        return z3.Extract(rw - 1, 0, zx(a, m) << n)

    def f_shr(a, aw, rw, n):
        m = max(aw, rw, n.bit_length() + 1)
        return z3.Extract(rw - 1, 0, z3.LShR(zx(a, m), n))

    def f_rotl(a, aw, rw, n):
        t = z3.RotateLeft(a, n % aw) if aw > 0 else a
        return zx(t, rw)

    def f_rotr(a, aw, rw, n):
        t = z3.RotateRight(a, n % aw)
        return zx(t, rw)

    wsk = ws if quick else ws + [16, 32]
    for aw in wsk:
        for rw in sorted(set([aw, 1, max(1, aw - 1), aw + 1, aw + 3])):
            for n in sorted(set([0, 1, max(0, aw - 1), aw, aw + 1, 2 * aw + 1])):
                yield 'ShiftLeftConstant a%d r%d n%d' % (aw, rw, n), shk_cfg(ShiftLeftConstant, aw, rw, n, f_shl)
                yield 'ShiftRightConstant a%d r%d n%d' % (aw, rw, n), shk_cfg(ShiftRightConstant, aw, rw, n, f_shr)
        for n in range(0, aw + 1):
            for rw in sorted(set([aw, aw + 2] if quick else [aw, max(1, aw - 1), aw + 2])):
                yield 'RotateLeftConstant a%d r%d n%d' % (aw, rw, n), shk_cfg(RotateLeftConstant, aw, rw, n, f_rotl)
                yield 'RotateRightConstant a%d r%d n%d' % (aw, rw, n), shk_cfg(RotateRightConstant, aw, rw, n, f_rotr)

    # ---- variable shifts / rotations ---------------------------------------------------------
    def shv_cfg(kind, aw, bw, rw, arith=None):
        def build(s):
            a, b, r = W(s, 'a', aw), W(s, 'b', bw), W(s, 'r', rw)
            ins = {'a': a, 'b': b}
            if kind == 'shl':
                ShiftLeft(s, 'dut', a, b, r)
            elif kind == 'shr':
                if arith == 'wire':
                    ar = W(s, 'arith', 1)
                    ins['arith'] = ar
                    ShiftRight(s, 'dut', a, b, r, arithmetic=ar)
                else:
                    ShiftRight(s, 'dut', a, b, r, arithmetic=bool(arith))
            elif kind == 'rotl':
                RotateLeft(s, 'dut', a, b, r)
            else:
                RotateRight(s, 'dut', a, b, r)
            return ins, {'r': r}

        def spec(V):
            a, b = V['a'], V['b']
            if kind == 'shl':
                m = max(aw, rw) + (1 << bw)
                return {'r': z3.Extract(rw - 1, 0, zx(a, m) << zx(b, m))}
            if kind == 'shr':
                m = max(aw, rw, bw) + 1
                logical = z3.Extract(rw - 1, 0, z3.LShR(zx(a, m), zx(b, m)))
                arithm = z3.Extract(rw - 1, 0, sx(a, m) >> zx(b, m))
                if arith == 'wire':
                    return {'r': z3.If(V['arith'] == 1, arithm, logical)}
                return {'r': arithm if arith else logical}
            m = max(aw, bw) + 1
            # rotate by a symbolic amount: ite-chain over the (small) amount range
            res = a
            for k in range(0, aw + 1):
                rk = z3.RotateLeft(a, k % aw) if kind == 'rotl' else z3.RotateRight(a, k % aw)
                res = z3.If(zx(b, m) == k, rk, res)
            return {'r': zx(res, rw)}

        c = {'build': build, 'spec': spec}
        if kind in ('rotl', 'rotr'):
            c['assume'] = lambda V: z3.ULE(zx(V['b'], max(aw, bw) + 1), z3.BitVecVal(aw, max(aw, bw) + 1))
        return c

    bws = [1, 2, 3] if quick else [1, 2, 3, 4]
    aws = [1, 2, 3, 4, 5, 8] if quick else [1, 2, 3, 4, 5, 6, 7, 8, 12, 16]
    for aw in aws:
        for bw in bws:
            for rw in sorted(set([aw, max(1, aw - 1), aw + 2])):
                yield 'ShiftLeft a%d b%d r%d' % (aw, bw, rw), shv_cfg('shl', aw, bw, rw)
                yield 'ShiftRight a%d b%d r%d logical' % (aw, bw, rw), shv_cfg('shr', aw, bw, rw, arith=False)
                yield 'ShiftRight a%d b%d r%d arithmetic' % (aw, bw, rw), shv_cfg('shr', aw, bw, rw, arith=True)
                yield 'ShiftRight a%d b%d r%d arithmetic-wire' % (aw, bw, rw), shv_cfg('shr', aw, bw, rw, arith='wire')
            if (1 << (bw - 1)) <= aw:
                yield 'RotateLeft a%d b%d' % (aw, bw), shv_cfg('rotl', aw, bw, aw)
                yield 'RotateRight a%d b%d' % (aw, bw), shv_cfg('rotr', aw, bw, aw)

    # ---- CountLeadingZeros ---------------------------------------------------------------------
    def clz_cfg(aw, rw):
        def build(s):
            a, r, z = W(s, 'a', aw), W(s, 'r', rw), W(s, 'z', 1)
            CountLeadingZeros(s, 'dut', a, r, z)
            return {'a': a}, {'r': r, 'z': z}

        def spec(V):
            a = V['a']
            n = max(rw, aw.bit_length()) + 1
            cnt = z3.BitVecVal(aw, n)
            for k in range(aw):             # bit k is the highest set bit -> aw-1-k leading zeros
                cnt = z3.If(z3.Extract(k, k, a) == 1, z3.BitVecVal(aw - 1 - k, n), cnt)
            return {'r': z3.Extract(rw - 1, 0, cnt), 'z': z3.If(a == 0, z3.BitVecVal(1, 1), z3.BitVecVal(0, 1))}
        return {'build': build, 'spec': spec}
    for aw in ([2, 3, 4, 5, 7, 8, 16] if quick else [2, 3, 4, 5, 6, 7, 8, 9, 12, 15, 16, 17, 24, 31, 32]):
        lg = max(1, (aw - 1).bit_length())
        for rw in sorted(set([lg, lg + 1, lg + 3])):
            yield 'CountLeadingZeros a%d r%d' % (aw, rw), clz_cfg(aw, rw)

    # ---- BinaryToBCD -----------------------------------------------------------------------------
    def bcd_cfg(aw, digits):
        rw = 4 * digits

        def build(s):
            a, r = W(s, 'a', aw), W(s, 'r', rw)
            BinaryToBCD(s, 'dut', a, r)
            return {'a': a}, {'r': r}

        def spec(V):
            n = aw + 4
            v = zx(V['a'], n)
            ds = []
            for i in range(digits):
                ds.append(z3.Extract(3, 0, z3.URem(v, z3.BitVecVal(10, n))))
                v = z3.UDiv(v, z3.BitVecVal(10, n))
            return {'r': z3.Concat(*reversed(ds)) if digits > 1 else ds[0]}
        return {'build': build, 'spec': spec}
    for aw, digits in ([(4, 2), (7, 3), (8, 3), (8, 2)] if quick else [(4, 2), (7, 3), (8, 3), (8, 2), (10, 4), (12, 4), (4, 1)]):
        yield 'BinaryToBCD a%d digits%d' % (aw, digits), bcd_cfg(aw, digits)

    # ---- wide data paths: beyond the 53-bit mantissa of a double and beyond one 64-bit machine word ("every legal combination of
    # port widths"); no dividers here (probed too slow), products share their multiplication node with the oracle
    for w in ([64] if quick else [54, 64, 65, 100]):
        for ci in (0, 1):
            for co in (0, 1):
                yield 'Add a%d b%d r%d ci%d co%d' % (w, w, w, ci, co), add_cfg(w, w, w, ci, co)
        yield 'Add a%d b%d r%d ci0 co0' % (w, w - 9, w + 1), add_cfg(w, w - 9, w + 1, 0, 0)
        yield 'Sub a%d b%d r%d' % (w, w, w), bin_cfg(Sub, w, w, w, f_sub)
        yield 'SubBorrowIn a%d b%d r%d' % (w, w, w), subbi_cfg(w, w, w)
        yield 'Mul a%d b%d r%d' % (w, w, w), bin_cfg(Mul, w, w, w, f_mul)
        yield 'Mul a%d b%d r%d' % (w, w, 2 * w), bin_cfg(Mul, w, w, 2 * w, f_mul)
        # SignedMul at these widths: probed, not decided within the budget (the implementation's sign handling is an if/else on the
        # operand's top bit, the oracle a sign extension: no shared product node) -- outside the claim, widths <= 12 (+16/24/32) only
        yield 'SignedAdd a%d b%d r%d' % (w, w - 9, w + 1), bin_cfg(SignedAdd, w, w - 9, w + 1, f_sadd)
        yield 'SignedSub a%d b%d r%d' % (w - 9, w, w + 1), bin_cfg(SignedSub, w - 9, w, w + 1, f_ssub)
        for aw, rw in ((w, w), (w - 9, w), (w, w + 3)):
            yield 'Neg a%d r%d' % (aw, rw), un_cfg(Neg, aw, rw, f_neg)
            yield 'Abs a%d r%d' % (aw, rw), un_cfg(Abs, aw, rw, f_abs)
            yield 'SignExtend a%d r%d' % (aw, rw), un_cfg(SignExtend, aw, rw, f_sext)
            yield 'ZeroExtend a%d r%d' % (aw, rw), un_cfg(ZeroExtend, aw, rw, f_zext)
        yield 'Abs+inverted a%d' % w, abs_inv_cfg(w)
        yield 'Sign a%d' % w, sign_cfg(w)
        for n in (1, 31, 53, w - 1, w):
            yield 'ShiftLeftConstant a%d r%d n%d' % (w, w, n), shk_cfg(ShiftLeftConstant, w, w, n, f_shl)
            yield 'ShiftRightConstant a%d r%d n%d' % (w, w, n), shk_cfg(ShiftRightConstant, w, w, n, f_shr)
            yield 'RotateLeftConstant a%d r%d n%d' % (w, w, n), shk_cfg(RotateLeftConstant, w, w, n, f_rotl)
            yield 'RotateRightConstant a%d r%d n%d' % (w, w, n), shk_cfg(RotateRightConstant, w, w, n, f_rotr)
        bw = 7
        yield 'ShiftLeft a%d b%d r%d' % (w, bw, w), shv_cfg('shl', w, bw, w)
        yield 'ShiftRight a%d b%d r%d logical' % (w, bw, w), shv_cfg('shr', w, bw, w, arith=False)
        yield 'ShiftRight a%d b%d r%d arithmetic' % (w, bw, w), shv_cfg('shr', w, bw, w, arith=True)
        rb = 4 if quick else 6                 # probed: 6 amount bits at 64 bits take about 10 s per query, the quick tier's cap
        yield 'RotateLeft a%d b%d' % (w, rb), shv_cfg('rotl', w, rb, w)
        yield 'RotateRight a%d b%d' % (w, rb), shv_cfg('rotr', w, rb, w)
        yield 'CountLeadingZeros a%d r%d' % (w, 8), clz_cfg(w, 8)


def main(argv=None):
    args = common.parse_args(PROP, argv)
    tasks = [(name, comb_task, cfg) for name, cfg in cfgs(args.tier)]
    return common.run_check(
        PROP, 'model_checking', tasks, args, design_ref='DESIGN.md section 3 (C07)',
        technique='symbolic execution of the real propagate()/simulator on z3 bit-vector symbols; one QF_BV query per output against an integer reference',
        assumptions=['divisor != 0 for Div/Mod/SignedDiv/BinaryToBCD(constant 10)', 'rotation amount <= data width',
                     'carry-out of Add = bit rw of a+b+ci; Neg reads its operand as unsigned when the result is wider'],
        bounds={'widths': '1..8 mixed (quick) / 1..12 mixed + 16,24,32 for blocks without division (thorough)',
                'outside': 'larger widths; shift-amount widths > 4'},
        trusted_base=['z3', 'symx operator semantics (validated per run against concrete simulation)', 'reference functions in checks/c07.py'],
        replay_fn=replay)


def replay(rec):
    from .comb import build_concrete, concrete
    for name, cfg in itertools.chain(cfgs('quick'), cfgs('thorough')):
        if name == rec['config']:
            break
    else:
        return None
    import py4hw
    from symx import symsim
    values = rec['inputs']
    try:
        got = build_concrete(cfg['build'], values)
    except Exception as e:
        return {'exception': repr(e)}
    s = py4hw.HWSystem()
    from .comb import quiet
    with quiet():
        ins, outs = cfg['build'](s)
    V = {n: z3.BitVec(n, w.getWidth()) for n, w in ins.items()}
    spec = cfg['spec'](V)
    for o, t in spec.items():
        exp = concrete(t, V, values)
        if got[o] != exp:
            return {'output': o, 'got': got[o], 'expected': exp}
    return None


if __name__ == '__main__':
    sys.exit(main())
