"""
C10 -- a clock domain advances exactly when its enable is active.

Designs carry a gated ClockDriver (base=system driver, enable=wire) on a block, on an ancestor
or nested; a twin design is identical but ungated.  From a symbolic pre-state and symbolic
inputs one real clk(1) is executed (the simulator's own `enable == 0` test forks and is merged):
  enable == 0  => every wire/attribute of every leaf of that domain is unchanged,
  enable != 0  => its post-state equals the twin's,
  leaves of other domains always equal the twin's.
One clk(n) call (n = 2..4) is executed symbolically as well and must leave every cell where n
calls of clk(1) leave it, with the enable an input, a register or a combinational function of
registers of the gated or the base domain.
The driver lookup (nearest ancestor) is checked structurally for every leaf.
"""
import itertools
import sys

import z3

from . import common
from .comb import quiet
from . import designs as D
from symx import core, symsim
from symx.core import ctx

import py4hw
from py4hw.base import Logic, Wire, ClockDriver, getObjectClockDriver
from py4hw.logic.storage import Reg
from py4hw.logic.bitwise import Not, Or2, And2, Buf
from py4hw.logic.arithmetic import Counter
from py4hw.logic.protocol.uart.clock import ClockSyncFSM

PROP = 'C10'


def build_design(s, shape, gated, enw=1, en_src='input', late=False):
    """returns {'ins':..., 'domains': {driver name: [leaf paths]}, 'en': {driver name: wire}}"""
    w = 3
    a = s.wire('a', w)
    ins = {'a': a}
    en = {}
    info = {'ins': ins, 'en': en, 'gated_boxes': [], 'pending': [], 'drvname': {}, 'nobase': en_src == 'input-nobase'}
    if en_src == 'input-nobase':
        en_src = 'input'

    def gate(box, name, enable_wire, base=None, drvname=None):
        info['drvname'][name] = drvname or name
        if gated and late:
            # the driver is assigned only after a first simulator has been obtained (see run)
            info['pending'].append((box, drvname or name, enable_wire))
        elif gated:
            if info.get('nobase'):
                box.clockDriver = ClockDriver(drvname or name, enable=enable_wire)         # a gated driver built without naming a base
            else:
                box.clockDriver = ClockDriver(drvname or name, base=(base.clockDriver if base is not None else s.clockDriver), enable=enable_wire)
        en[name] = enable_wire
        info['gated_boxes'].append((name, box))

    q0 = s.wire('q0', w)
    if shape == 'only-gated':
        # every register of the design lives inside the gated block (the base domain owns no clockable at all)
        e = s.wire('en', enw)
        ins['en'] = e
        o = s.wire('o', w)

        def body(b):
            m = b.wire('m', w)
            Reg(b, 'g0', a, m)
            Reg(b, 'g1', m, o)
        box = D.Box(s, 'box', {'a': a, 'en': e}, {'o': o}, body)
        gate(box, 'gck', e)
        return info
    if shape == 'gated-first':
        # the gated block is instantiated BEFORE any register of the base domain, and a block on a derived driver that has no enable
        # (never gated) comes last: the simulator meets the gated domain first
        e = s.wire('en', enw)
        ins['en'] = e
        o = s.wire('o', w)

        def body(b):
            m = b.wire('m', w)
            Reg(b, 'g0', a, m)
            Reg(b, 'g1', m, o)
        box = D.Box(s, 'box', {'a': a, 'en': e}, {'o': o}, body)
        gate(box, 'gck', e)
        Reg(s, 'r0', a, q0)
        q1 = s.wire('q1', w)
        Reg(s, 'r1', o, q1)
        u = s.wire('u', w)

        def body2(b):
            Reg(b, 'h0', q0, u)
        box2 = D.Box(s, 'free', {'q0': q0}, {'u': u}, body2)
        box2.clockDriver = ClockDriver('fck', base=s.clockDriver)
        info['free'] = [('fck', box2)]       # blocks with a driver of their own that is never gated: behave like the base domain
        return info
    Reg(s, 'r0', a, q0)

    if shape in ('block', 'multibit', 'inside', 'fsm'):
        o = s.wire('o', w)
        e = s.wire('en', enw)
        if en_src == 'input':
            ins['en'] = e
        elif en_src == 'regdirect':
            # the enable IS the output of a base-domain register (instantiated before the gated block) and nothing else reads it
            ed = s.wire('ed', enw)
            ins['ed'] = ed
            Reg(s, 'ereg', ed, e)
        elif en_src == 'combbase':
            # the enable is a combinational function of a register of the base domain
            eb = s.wire('eb', 1)
            py4hw.Bit(s, 'eb', q0, 1, eb)
            py4hw.ZeroExtend(s, 'ez', eb, e) if enw > 1 else Not(s, 'ez', eb, e)

        def body(b):
            m = b.wire('m', w)
            Reg(b, 'g0', q0, m)
            if shape == 'fsm':
                st = b.wire('st', 1)
                py4hw.Bit(b, 'st', m, 0, st)
                sp = b.wire('sp', 1)
                py4hw.Bit(b, 'sp', m, 1, sp)
                sy, ac = b.wire('sy', 1), b.wire('ac', 1)
                ClockSyncFSM(b, 'fsm', st, sp, sy, ac)
                cq = b.wire('cq', w)
                Counter(b, 'cnt', sy, ac, cq)
                Buf(b, 'o', cq, o)
            else:
                Reg(b, 'g1', m, o)
            if en_src == 'inside':
                # the enable is the output of a register that lives in the gated domain itself
                nb = b.wire('nb', 1)
                py4hw.Bit(b, 'nb', m, 0, nb)
                t = b.wire('t', enw)
                py4hw.ZeroExtend(b, 't', nb, t) if enw > 1 else Buf(b, 't', nb, t)
                Reg(b, 'ge', t, e)
            if en_src == 'comb':
                # the enable is a combinational function of a register of the gated domain itself
                nb = b.wire('nb', 1)
                py4hw.Bit(b, 'nb', m, 0, nb)
                t = b.wire('t', 1)
                Not(b, 't', nb, t)
                py4hw.ZeroExtend(b, 'e', t, e) if enw > 1 else Buf(b, 'e', t, e)
        outs = {'o': o}
        bins = {'q0': q0}
        if en_src in ('input', 'combbase', 'regdirect'):
            bins['en'] = e
        else:
            outs['en'] = e
        box = D.Box(s, 'box', bins, outs, body)
        gate(box, 'gck', e)
        q1 = s.wire('q1', w)
        Reg(s, 'r1', o, q1)
    elif shape == 'ancestor':
        # driver on an ancestor two levels above the registers
        e = s.wire('en', enw)
        ins['en'] = e
        o = s.wire('o', w)

        def inner(b2):
            m2 = b2.wire('m2', w)
            Reg(b2, 'h0', b2.inPorts[0].wire, m2)
            Reg(b2, 'h1', m2, b2.outPorts[0].wire)

        def outer(b):
            mid = b.wire('mid', w)
            Reg(b, 'g0', q0, mid)
            D.Box(b, 'inner', {'x': mid}, {'y': o}, inner)
        box = D.Box(s, 'outer', {'q0': q0, 'en': e}, {'o': o}, outer)
        gate(box, 'gck', e)
        q1 = s.wire('q1', w)
        Reg(s, 'r1', o, q1)
    elif shape in ('nested', 'nested-chain'):
        e1 = s.wire('en1', 1)
        e2 = s.wire('en2', 1)
        ins['en1'] = e1
        ins['en2'] = e2
        o = s.wire('o', w)
        boxes = {}

        def inner(b2):
            Reg(b2, 'h0', b2.inPorts[0].wire, b2.outPorts[0].wire)
            boxes['inner'] = b2

        def outer(b):
            mid = b.wire('mid', w)
            Reg(b, 'g0', q0, mid)
            D.Box(b, 'inner', {'x': mid, 'en2': e2}, {'y': o}, inner)
        box = D.Box(s, 'outer', {'q0': q0, 'en1': e1, 'en2': e2}, {'o': o}, outer)
        gate(box, 'gck1', e1)
        # nested-chain: the inner driver is derived from the outer GATED driver (base chain), not from the system clock
        gate(boxes['inner'], 'gck2', e2, base=(box if shape == 'nested-chain' else None))
        q1 = s.wire('q1', w)
        Reg(s, 'r1', o, q1)
    elif shape in ('leaf', 'leaf-in-gated'):
        # the driver sits on the clockable leaf itself (reg.clockDriver = ...), not on a structural ancestor; in
        # 'leaf-in-gated' the enclosing block is gated too and the leaf's own driver is derived from the block's
        e1 = s.wire('en1', 1)
        e2 = s.wire('en2', 1)
        ins['en2'] = e2
        if shape == 'leaf-in-gated':
            ins['en1'] = e1
        o = s.wire('o', w)
        boxes = {}

        def body(b):
            m = b.wire('m', w)
            Reg(b, 'g0', q0, m)
            boxes['leaf'] = Reg(b, 'g1', m, o)
        bins = {'q0': q0, 'en2': e2}
        if shape == 'leaf-in-gated':
            bins['en1'] = e1
        box = D.Box(s, 'box', bins, {'o': o}, body)
        if shape == 'leaf-in-gated':
            gate(box, 'gck1', e1)
        gate(boxes['leaf'], 'gck2', e2, base=(box if shape == 'leaf-in-gated' else None))
        q1 = s.wire('q1', w)
        Reg(s, 'r1', o, q1)
    elif shape.startswith('random#'):
        e = s.wire('en', enw)
        ins['en'] = e
        got = {}

        def body(b):
            got.update(D.random_design(int(shape.split('#')[1]))(b))
        box = D.Box(s, 'box', {'en': e}, {}, body)
        for n_, w_ in got['ins'].items():
            ins['b_' + n_] = w_
        gate(box, 'gck', e)
        # a register of the base domain that reads a wire of the gated block
        src = [w_ for n_, w_ in box._wires.items() if n_.startswith('q')][0]
        q1 = s.wire('q1', src.getWidth())
        Reg(s, 'r1', src, q1)
    elif shape in ('three', 'three-same-name'):
        last = q0
        for k in range(3):
            e = s.wire('en%d' % k, 1)
            ins['en%d' % k] = e
            o = s.wire('o%d' % k, w)

            def body(b, last=last, o=o):
                Reg(b, 'g', last, o)
            box = D.Box(s, 'box%d' % k, {'i': last, 'en': e}, {'o': o}, body)
            # three-same-name: three distinct driver objects that all carry the name 'gck' (a reusable module creating its own driver)
            gate(box, 'gck%d' % k, e, drvname=('gck' if shape == 'three-same-name' else None))
            last = o
        q1 = s.wire('q1', w)
        Reg(s, 'r1', last, q1)
    return info


def domain_of(leaf, info):
    """name of the innermost gated box containing the leaf (None = base domain)"""
    best = None
    depth = -1
    for name, box in info['gated_boxes']:
        o = leaf
        d = 0
        while o is not None:
            if o is box:
                dd = len(box.getFullPath())
                if dd > depth:
                    best, depth = name, dd
                break
            o = o.parent
    return best


def run(shape, gated, enw, en_src, values=None, rec=None, n=1, single=True, late=False):
    with quiet():
        s = py4hw.HWSystem()
        info = build_design(s, shape, gated, enw, en_src, late=late)
        if info['pending']:
            s.getSimulator().clk(1)                     # the design is simulated ungated first
            for box, name, enable_wire in info['pending']:
                box.clockDriver = ClockDriver(name, base=s.clockDriver, enable=enable_wire)
        if values is None:
            symsim.instrument(s, rec)
        sim = s.getSimulator()
    vars_ = {}
    if values is None:
        vars_.update(D.symbolize_state(s))
        Iw = symsim.poke_fresh(list(info['ins'].values()), 'i_')
        vars_.update(('i:' + n, Iw[w]) for n, w in info['ins'].items())
    else:
        D.load_concrete_state(s, values)
        for n, w in info['ins'].items():
            w.put(values.get('i:' + n, 0))
    with quiet():
        sim.propagateAll()
    pre = D.snapshot_all(s)
    en_pre = {name: w.value for name, w in info['en'].items()}
    with quiet():
        for cnt in ([n] if single else [1] * n):
            if values is None and gated:
                symsim.run_merged(lambda: sim.clk(cnt), symsim.system_region(s), where='clk(%d)' % cnt)
            else:
                sim.clk(cnt)
    post = D.snapshot_all(s)
    return s, info, pre, post, en_pre, vars_, sim


def gate_task(p, cfg, rec):
    shape, enw, en_src = cfg['shape'], cfg['enw'], cfg['en_src']
    late = cfg.get('late', False)
    s, info, pre, post, en_pre, vars_, sim = run(shape, True, enw, en_src, rec=rec, late=late)
    s2, info2, pre2, post2, en_pre2, vars2, sim2 = run(shape, False, enw, en_src, rec=rec)
    p.res['states'] += 1
    p.res['transitions'] += 2
    # structural: nearest-ancestor driver for every leaf; simulator grouping agrees
    for leaf in s.allLeaves():
        dn = domain_of(leaf, info)
        drv = getObjectClockDriver(leaf)
        want = info['drvname'].get(dn, dn) if dn else 'clk'
        for fname, fbox in info.get('free', []):
            o_ = leaf
            while o_ is not None:
                if o_ is fbox:
                    want = fname
                o_ = o_.parent
        p.structural('driver lookup %s' % leaf.getFullPath(), drv.name == want,
                     detail={'leaf': leaf.getFullPath(), 'driver': drv.name, 'expected': want})
        if leaf.isClockable():
            grp = [getattr(d, 'name', d) for d, cds in sim.clockDrivers.items() if any(c is leaf for c in cds.clockables)]
            p.structural('simulator group %s' % leaf.getFullPath(), grp == [want], detail={'groups': grp})
    # cells per domain: leaf attributes and the wires driven by the leaf
    for leaf in s.allLeaves():
        if not leaf.isClockable():
            continue
        dn = domain_of(leaf, info)
        path = leaf.getFullPath()
        keys = ['w:' + o.wire.getFullPath() for o in leaf.outPorts]
        keys += [k for k in post if k.startswith('a:%s.' % path)]
        for k in keys:
            tw = post2.get(k)
            if dn is None:
                c = D.differ(post[k], tw)
                name = 'other-domain leaf equals the ungated twin: %s' % k
            else:
                e = en_pre[dn]
                is_on = (e != 0)
                on = core.as_z3_bool(is_on) if not isinstance(is_on, bool) else z3.BoolVal(is_on)
                c_hold = D.differ(post[k], pre[k])
                c_run = D.differ(post[k], tw)
                zc = lambda x: z3.BoolVal(x) if isinstance(x, bool) else x
                c = z3.Or(z3.And(z3.Not(on), zc(c_hold)), z3.And(on, zc(c_run)))
                name = 'gated leaf holds when enable==0, equals twin otherwise: %s' % k
            if c is False:
                p.structural(name, True)
                continue
            if c is True:
                c = z3.BoolVal(True)

            def replay(values, k=k, dn=dn):
                a = run(shape, True, enw, en_src, values=values, late=late)
                b = run(shape, False, enw, en_src, values=values)
                pre_c, post_c, en_c, post_t = a[2], a[3], a[4], b[3]
                if dn is None:
                    return None if post_c[k] == post_t[k] else {'cell': k, 'gated': post_c[k], 'twin': post_t[k]}
                if en_c[dn] == 0:
                    return None if post_c[k] == pre_c[k] else {'cell': k, 'enable': 0, 'before': pre_c[k], 'after': post_c[k]}
                return None if post_c[k] == post_t[k] else {'cell': k, 'enable': en_c[dn], 'gated': post_c[k], 'twin': post_t[k]}
            p.prove(name, c, inputs=vars_, replay=replay)
    # canary: with enable free, a gated register must be able to differ from its pre-state
    for name, box in info['gated_boxes'][:1]:
        cs = []
        for leaf in [l for l in box.allLeaves() if l.isClockable() and l.outPorts]:
            k = 'w:' + leaf.outPorts[0].wire.getFullPath()
            c = D.differ(post[k], pre[k])
            cs.append(c if not isinstance(c, bool) else z3.BoolVal(c))
        p.res['canaries'] += 1
        r, m = p.satisfiable([z3.Or(*cs)])
        if r == z3.sat:
            p.res['canaries_ok'] += 1
        else:
            p.res['errors'].append('canary: gated register can never change (%s)' % p.config)


def multi_task(p, cfg, rec):
    """one clk(n) call leaves the design where n calls of clk(1) leave it (each single step is tied
    to the enable-before-the-edge rule by gate_task, so this extends it to multi-cycle calls)"""
    shape, enw, en_src, n = cfg['shape'], cfg['enw'], cfg['en_src'], cfg['n']
    s, info, pre, post, en_pre, vars_, sim = run(shape, True, enw, en_src, rec=rec, n=n, single=True)
    s2, info2, pre2, post2, en_pre2, vars2, sim2 = run(shape, True, enw, en_src, rec=rec, n=n, single=False)
    p.res['states'] += 1
    p.res['transitions'] += 2 * n
    vars_.update(vars2)
    moved = []
    for leaf in s.allLeaves():
        if not leaf.isClockable():
            continue
        path = leaf.getFullPath()
        keys = ['w:' + o.wire.getFullPath() for o in leaf.outPorts]
        keys += [k for k in post if k.startswith('a:%s.' % path)]
        for k in keys:
            c = D.differ(post[k], post2[k])
            name = 'clk(%d) equals %d x clk(1): %s' % (n, n, k)
            if c is False:
                p.structural(name, True)
                continue
            if c is True:
                c = z3.BoolVal(True)

            def replay(values, k=k):
                a = run(shape, True, enw, en_src, values=values, n=n, single=True)
                b = run(shape, True, enw, en_src, values=values, n=n, single=False)
                return None if a[3][k] == b[3][k] else {'cell': k, 'clk(%d)' % n: a[3][k], '%d x clk(1)' % n: b[3][k]}
            p.prove(name, c, inputs=vars_, replay=replay)
            d = D.differ(post[k], pre[k])
            moved.append(d if not isinstance(d, bool) else z3.BoolVal(d))
    p.res['canaries'] += 1
    r, m = p.satisfiable([z3.Or(*moved)])
    if r == z3.sat:
        p.res['canaries_ok'] += 1
    else:
        p.res['errors'].append('canary: no register can change in %d cycles (%s)' % (n, p.config))


def cfgs(tier):
    quick = tier == 'quick'
    out = []
    for shape in ('block', 'fsm', 'ancestor', 'nested', 'nested-chain', 'three', 'three-same-name', 'leaf', 'leaf-in-gated'):
        out.append(('%s enable=input' % shape, {'shape': shape, 'enw': 1, 'en_src': 'input'}))
    out.append(('block enable=2-bit input', {'shape': 'multibit', 'enw': 2, 'en_src': 'input'}))
    out.append(('block enable=register inside the gated domain', {'shape': 'inside', 'enw': 1, 'en_src': 'inside'}))
    out.append(('block enable=2-bit register inside the gated domain', {'shape': 'inside', 'enw': 2, 'en_src': 'inside'}))
    out.append(('block enable=combinational function of a register of the gated domain', {'shape': 'block', 'enw': 1, 'en_src': 'comb'}))
    out.append(('block enable=combinational function of a base-domain register', {'shape': 'block', 'enw': 1, 'en_src': 'combbase'}))
    out.append(('fsm enable=2-bit combinational function of a register of the gated domain', {'shape': 'fsm', 'enw': 2, 'en_src': 'comb'}))
    out.append(('only-gated enable=input', {'shape': 'only-gated', 'enw': 1, 'en_src': 'input'}))
    out.append(('block enable=input, gated driver constructed without a base', {'shape': 'block', 'enw': 1, 'en_src': 'input-nobase'}))
    out.append(('only-gated enable=input, gated driver constructed without a base', {'shape': 'only-gated', 'enw': 1, 'en_src': 'input-nobase'}))
    out.append(('block enable=output of a base-domain register that nothing else reads', {'shape': 'block', 'enw': 1, 'en_src': 'regdirect'}))
    out.append(('block enable=2-bit output of a base-domain register that nothing else reads', {'shape': 'multibit', 'enw': 2, 'en_src': 'regdirect'}))
    out.append(('gated-first (gated block instantiated before the base-domain registers, ungated derived driver last) enable=input', {'shape': 'gated-first', 'enw': 1, 'en_src': 'input'}))
    out.append(('gated-first enable=2-bit input', {'shape': 'gated-first', 'enw': 2, 'en_src': 'input'}))
    for shape in ('block', 'ancestor', 'nested', 'only-gated') if quick else ('block', 'fsm', 'ancestor', 'nested', 'three', 'only-gated'):
        out.append(('%s enable=input, drivers assigned after a first simulator was obtained and clocked' % shape,
                    {'shape': shape, 'enw': 1, 'en_src': 'input', 'late': True}))
    for k in range(4 if quick else 40):
        out.append(('random design #%d in a gated box, enable=%d-bit input' % (k, 1 + k % 2), {'shape': 'random#%d' % k, 'enw': 1 + k % 2, 'en_src': 'input'}))
    if not quick:
        out.append(('fsm enable=register inside', {'shape': 'fsm', 'enw': 1, 'en_src': 'inside'}))
        out.append(('block enable=3-bit input', {'shape': 'multibit', 'enw': 3, 'en_src': 'input'}))
    return out


def multi_cfgs(tier):
    quick = tier == 'quick'
    out = []
    for n in ((2, 3) if quick else (2, 3, 4)):
        for shape, enw, en_src in (('block', 1, 'comb'), ('block', 1, 'combbase'), ('block', 1, 'inside'), ('block', 1, 'input'), ('block', 1, 'regdirect'), ('leaf', 1, 'input'), ('gated-first', 1, 'input'),
                                   ('fsm', 2, 'comb'), ('nested', 1, 'input'), ('nested-chain', 1, 'input')):
            if quick and n == 3 and shape != 'block':
                continue
            out.append(('clk(%d) in one call: %s enable=%s/%d' % (n, shape, en_src, enw), {'shape': shape, 'enw': enw, 'en_src': en_src, 'n': n}))
    return out


def main(argv=None):
    args = common.parse_args(PROP, argv)
    tasks = [(n, gate_task, c) for n, c in cfgs(args.tier)]
    tasks += [(n, multi_task, c) for n, c in multi_cfgs(args.tier)]
    return common.run_check(
        PROP, 'model_checking', tasks, args, design_ref='DESIGN.md section 3 (C10)',
        technique='symbolic execution of the real Simulator._clk_cycle (its enable test forks and is merged) from a symbolic pre-state; QF_BV queries against pre-state and an ungated twin',
        assumptions=['pre-state: all register contents / FSM attributes symbolic, Reg.value == q',
                     'enable is the value the enable wire carries after the propagateAll() that precedes the edge'],
        bounds={'designs': [n for n, c in cfgs(args.tier)], 'domains': '1..3', 'multi-cycle calls': [n for n, c in multi_cfgs(args.tier)], 'history': 'one step from an arbitrary state => all enable sequences by induction'},
        trusted_base=['z3', 'symx operator semantics and fork-and-merge shell'])


if __name__ == '__main__':
    sys.exit(main())
