"""
C19 -- Verilog generation is a pure, repeatable function of the circuit.

(a) one real clock step from a symbolic state is executed before and after a sequence of
    generation requests; all wire/attribute terms must be equal (solver), and the object graph
    (ports, children order, wires, parameters) is compared structurally;
(b) every text returned for a circuit is elaborated (E2) and proved semantically equivalent to
    the first text returned for it: same interface, same state variables, same power-up state,
    equal outputs and next state for all inputs/states -- equality 'up to declaration order and
    instance-unique suffixes' is decided by the solver, not by a textual diff;
(c) the module text of a sub-block requested through different ancestors likewise;
(d) requests for several circuits interleaved in one process: every text is proved equivalent to
    the text a fresh interpreter returns for the same circuit (state kept in classes or modules
    of the generator/transpiler would show up here).
"""
import io
import itertools
import zlib
import re
import sys

import z3

from . import common
from .comb import quiet
from . import designs as D
from . import c01
from .vequiv import wrap_in_box
from symx import core, symsim
from symx.core import ctx

import py4hw
from py4hw.logic.storage import Reg
from py4hw.logic.bitwise import And2, Not, Mux2, Buf
from py4hw.logic.arithmetic import Add, Counter, Abs
from py4hw.logic.clock import AutoReset
from py4hw.logic.protocol.uart.clock import ClockSyncFSM
from vlog import elab
from vlog.parser import VlogUnsupported, VlogSyntaxError, parse

PROP = 'C19'


def W(s, n, w=1):
    return s.wire(n, w)


def d_struct(s):
    a, b, e = W(s, 'a', 4), W(s, 'b', 4), W(s, 'e', 1)
    r, q, c = W(s, 'r', 4), W(s, 'q', 4), W(s, 'c', 3)
    t = W(s, 't', 4)
    Add(s, 'add', a, b, t)
    Reg(s, 'reg', t, q, enable=e, reset_value=3)
    Mux2(s, 'mux', e, a, q, r)
    Counter(s, 'cnt', None, e, c)
    return {'ins': {'a': a, 'b': b, 'e': e}, 'outs': {'r': r, 'q': q, 'c': c}}


def d_hier(s):
    a, e = W(s, 'a', 3), W(s, 'e', 1)
    o, c, ab = W(s, 'o', 3), W(s, 'c', 3), W(s, 'ab', 3)

    def inner(b2):
        m = b2.wire('m', 3)
        Not(b2, 'n', a, m)
        Reg(b2, 'r', m, o, enable=e)

    def outer(b1):
        D.Box(b1, 'inner', {'a': a, 'e': e}, {'o': o}, inner)
        Counter(b1, 'cnt', None, e, c)
        Abs(b1, 'abs', o, ab)
    D.Box(s, 'outer', {'a': a, 'e': e}, {'o': o, 'c': c, 'ab': ab}, outer)
    return {'ins': {'a': a, 'e': e}, 'outs': {'o': o, 'c': c, 'ab': ab}}


def d_behav(s):
    x, st = W(s, 'x', 1), W(s, 'stop', 1)
    sy, ac, rs = W(s, 'sync', 1), W(s, 'active', 1), W(s, 'rst', 1)
    q = W(s, 'q', 1)
    Reg(s, 'rx', x, q)
    ClockSyncFSM(s, 'fsm', q, st, sy, ac)
    AutoReset(s, 'ar', rs)
    return {'ins': {'x': x, 'stop': st}, 'outs': {'sync': sy, 'active': ac, 'rst': rs}}


class KComb(py4hw.Logic):
    """behavioural block whose constructor argument is a constant of the emitted module"""
    def __init__(self, parent, name, a, r, k):
        super().__init__(parent, name)
        self.a = self.addIn('a', a)
        self.r = self.addOut('r', r)
        self.k = k

    def propagate(self):
        self.r.put(self.a.get() + self.k)


class KSeq(py4hw.Logic):
    def __init__(self, parent, name, a, r, k):
        super().__init__(parent, name)
        self.a = self.addIn('a', a)
        self.r = self.addOut('r', r)
        self.k = k

    def clock(self):
        self.r.prepare(self.a.get() ^ self.k)


def d_const(k):
    def build(s):
        a, t, r = W(s, 'a', 4), W(s, 't', 4), W(s, 'r', 4)
        KComb(s, 'kc', a, t, k)
        KSeq(s, 'ks', t, r, k + 1)
        return {'ins': {'a': a}, 'outs': {'r': r, 't': t}}
    return build


class PadRing(py4hw.Logic):
    """one tri-state pad: 'pad' is a bidirectional (inout) port, as in the library's platform wrappers"""
    def __init__(self, parent, name, pin, pout, poe, pad):
        super().__init__(parent, name)
        self.addIn('pout', pout)
        self.addIn('poe', poe)
        self.addOut('pin', pin)
        self.addInOut('pad', pad)
        py4hw.BidirBuf(self, 'buf', pin, pout, poe, pad)


def build_pad(s):
    """(box, ins, outs, extra) for a design with inout ports two levels deep"""
    a, e, o = W(s, 'a', 1), W(s, 'e', 1), W(s, 'o', 1)
    pad = s.bidir_wire('pad')
    box = D.Box(s, 'box', {'a': a, 'e': e}, {'o': o}, lambda b: None)
    box.addInOut('pad', pad)
    t, pin = box.wire('t', 1), box.wire('pin', 1)
    Reg(box, 'r', a, t)
    PadRing(box, 'ring', pin, t, e, pad)
    Reg(box, 'ro', pin, o)
    return box, {'a': a, 'e': e}, {'o': o}, {}


class Handshake(py4hw.Logic):
    """behavioural block whose state flags are initialised with bool literals in the constructor"""
    def __init__(self, parent, name, req, ack, cnt):
        super().__init__(parent, name)
        self.req = self.addIn('req', req)
        self.ack = self.addOut('ack', ack)
        self.cnt = self.addOut('cnt', cnt)
        self.busy = False
        self.done = True
        self.n = 0

    def clock(self):
        if self.busy:
            self.n = self.n + 1
            if self.n == 3:
                self.busy = False
                self.done = True
                self.ack.prepare(1)
        elif self.req.get():
            self.busy = True
            self.done = False
            self.n = 0
            self.ack.prepare(0)
        self.cnt.prepare(self.n)


def d_flags(s):
    req, ack, cnt, q = W(s, 'req', 1), W(s, 'ack', 1), W(s, 'cnt', 2), W(s, 'q', 2)
    Handshake(s, 'hs', req, ack, cnt)
    Reg(s, 'r', cnt, q)
    return {'ins': {'req': req}, 'outs': {'ack': ack, 'q': q}}


def d_wideconst(s):
    """constants beyond 32 bits (emitted as sized literals) next to a register: the text must not depend on whether / how long the
    circuit was simulated before the request"""
    a = W(s, 'a', 64)
    k1, k2, k3 = W(s, 'k1', 64), W(s, 'k2', 40), W(s, 'k3', 64)
    py4hw.Constant(s, 'k1', (1 << 40) + 5, k1)
    py4hw.Constant(s, 'k2', -(1 << 33), k2)
    py4hw.Constant(s, 'k3', 1 << 31, k3)
    x, q, o = W(s, 'x', 64), W(s, 'q', 64), W(s, 'o', 40)
    py4hw.Xor2(s, 'x', a, k1, x)
    Reg(s, 'r', x, q)
    t = W(s, 't', 64)
    py4hw.Or2(s, 'or', q, k3, t)
    py4hw.And2(s, 'and', t, k2, o)
    return {'ins': {'a': a}, 'outs': {'q': q, 'o': o}}


def new_system(dname):
    """the system a design is built in; designs named '... CLOCK_50' use a board-style clock driver name instead of the default 'clk'"""
    s = py4hw.HWSystem()
    if 'CLOCK_50' in dname:
        s.clockDriver = py4hw.ClockDriver('CLOCK_50', 50E6, 0, wire=s.wire('CLOCK_50'))
    return s


def d_regs_en(s):
    """registers with enable (shared module Reg8E) and an adder: the same design is built on the default clock and on CLOCK_50"""
    a, e = W(s, 'a', 8), W(s, 'e', 1)
    q0, q1, t = W(s, 'q0', 8), W(s, 'q1', 8), W(s, 't', 8)
    Reg(s, 'r0', a, q0, enable=e)
    py4hw.Add(s, 'add', q0, a, t)
    Reg(s, 'r1', t, q1, enable=e)
    return {'ins': {'a': a, 'e': e}, 'outs': {'q1': q1}}


def d_twin(mod):
    def build(s):
        import importlib
        m = importlib.import_module('checks.c19_twin_' + mod)
        a, b, r, q = W(s, 'a', 4), W(s, 'b', 4), W(s, 'r', 4), W(s, 'q', 4)
        m.Stage(s, 'st', a, b, r)
        m.Tick(s, 'tk', r, q)
        return {'ins': {'a': a, 'b': b}, 'outs': {'r': r, 'q': q}}
    return build


DESIGNS = {'structural': d_struct, 'hierarchy': d_hier, 'behavioural leaves': d_behav, 'constructor constants k=3': d_const(3),
           'constructor constants k=5': d_const(5),
           'registers with enable, default clock': d_regs_en, 'registers with enable, clock named CLOCK_50': d_regs_en,
           'behavioural block with bool-initialised state flags': d_flags, 'constants beyond 32 bits': d_wideconst,
           'same-named behavioural classes, module A': d_twin('a'), 'same-named behavioural classes, module B': d_twin('b')}


def ref_text(dname):
    """text of a whole-hierarchy request for the design (used from a fresh interpreter, see isolation_task)"""
    with quiet():
        s = new_system(dname)
        box, ins, outs, extra = wrap_in_box(DESIGNS[dname], 'seq')(s)
    return gen('H', box, {})


def fresh_process_text(dname):
    import subprocess
    code = 'import sys; sys.path.insert(0, %r); from checks import c19; sys.stdout.write("@@BEGIN@@" + c19.ref_text(%r))' % ('/verif', dname)
    r = subprocess.run([sys.executable, '-W', 'ignore', '-c', code], capture_output=True, text=True, cwd='/verif', timeout=300)
    if r.returncode != 0 or '@@BEGIN@@' not in r.stdout:
        raise RuntimeError('fresh interpreter failed: %s' % r.stderr[-300:])
    return r.stdout.split('@@BEGIN@@', 1)[1]


def isolation_task(p, cfg, rec):
    """requests for several circuits interleaved in this process: every text is proved equivalent to the text
    a fresh interpreter (nothing generated before) returns for the same circuit"""
    names, order = cfg['designs'], cfg['order']
    boxes = {}
    with quiet():
        for dn in names:
            s = new_system(dn)
            boxes[dn] = wrap_in_box(DESIGNS[dn], 'seq')(s)[0]
    refs = {}
    for dn in names:
        try:
            refs[dn] = fresh_process_text(dn)
        except Exception as e:
            p.inconclusive('reference', 'fresh interpreter: %r' % e)
            return
    gens = {}
    for k, (dn, kind) in enumerate(order):
        try:
            t = gen(kind, boxes[dn], gens.setdefault(dn, {}))
        except Exception as e:
            p.structural('request %d (%s on %s) completes' % (k, kind, dn), False, detail={'exception': repr(e)})
            continue
        p.res['programs'] += 1
        if t is not None:
            equivalent_texts(p, 'request %d (%s on %s) vs the text of a fresh interpreter' % (k, kind, dn), refs[dn], t)


def freeze(v, depth=0):
    """value of an attribute of a block as generation must leave it: numbers and strings by value, wires and blocks by
    identity, lists/tuples/dicts element-wise (e.g. the bit list of BitsMSBF)"""
    if isinstance(v, bool):
        return ('bool', v)
    if isinstance(v, (int, str, float, type(None))):
        return v
    if depth < 3 and isinstance(v, (list, tuple)):
        return [freeze(e, depth + 1) for e in v]
    if depth < 3 and isinstance(v, dict):
        return sorted((repr(k), freeze(e, depth + 1)) for k, e in v.items())
    return ('obj', type(v).__name__, id(v))


def graph_snapshot(obj):
    """structure of the object graph that generation must not alter"""
    def rec(o):
        return {
            'name': o.name, 'class': type(o).__name__,
            'in': [(p.name, id(p.wire)) for p in o.inPorts], 'out': [(p.name, id(p.wire)) for p in o.outPorts],
            'inout': [(p.name, id(p.wire)) for p in getattr(o, 'inOutPorts', [])],
            'wires': [(k, w.name, w.getWidth(), id(w.source) if getattr(w, 'source', None) is not None else None, len(w.sinks)) for k, w in o._wires.items()],
            'params': dict(getattr(o, 'parameters', {})) if hasattr(o, 'parameters') else None,
            'children': [rec(c) for c in o.children.values()],
            'clockDriver': id(o.clockDriver) if o.clockDriver is not None else None,
            'attrs': {k: freeze(v) for k, v in o.__dict__.items() if k not in ('parent', 'children', 'inPorts', 'outPorts', 'inOutPorts', '_wires',
                                                                             'parameters', 'clockDriver', 'simulator', 'propagate', 'clock')},
        }
    return rec(obj)


def gen(kind, box, gens, other=None):
    """perform one generation request; returns (label, text or None)"""
    out = io.StringIO()
    old = sys.stdout
    sys.stdout = out
    try:
        if kind == 'H':                       # whole hierarchy, fresh generator
            return py4hw.VerilogGenerator(box).getVerilogForHierarchy()
        if kind == 'h':                       # whole hierarchy, same generator object as before
            g = gens.setdefault('g', py4hw.VerilogGenerator(box))
            return g.getVerilogForHierarchy()
        if kind == 'S':                       # caller-supplied createdStructures list
            return py4hw.VerilogGenerator(box).getVerilogForHierarchy(createdStructures=[])
        if kind == 'L':                       # the SAME generator object with a list the caller keeps (as a platform flow sharing it does)
            g = gens.setdefault('g', py4hw.VerilogGenerator(box))
            lst = gens.setdefault('L', [])
            first = not lst
            t = g.getVerilogForHierarchy(createdStructures=lst)
            gens['L_snapshot'] = list(lst)
            return t if first else None
        if kind == 'M':                       # single module
            py4hw.VerilogGenerator(box).getVerilog()
            return None
        if kind in ('m', 'c', 'p'):           # the SAME generator object asked for something rooted elsewhere
            g = gens.setdefault('g', py4hw.VerilogGenerator(box))
            subs = [c for c in box.children.values() if not g.isInlinable(c)]
            sub = subs[0] if subs else box
            if kind == 'm':
                g.getVerilog()
            elif kind == 'c':
                g.getVerilog(sub)
            else:
                g.getVerilogForHierarchy(obj=sub, noInstanceNumberInTopEntity=False)
            return None
        if kind == 'O':                       # another circuit in between
            s2 = py4hw.HWSystem()
            b2, i2, o2, e2 = wrap_in_box(d_struct, 'seq')(s2)
            py4hw.VerilogGenerator(b2).getVerilogForHierarchy()
            return None
        raise ValueError(kind)
    finally:
        sys.stdout = old


def step_terms(s, ins, values=None):
    """one clock step from a symbolic (or given concrete) state with symbolic inputs: all terms.
    The concrete state the circuit had before is put back afterwards, so that generation requests
    in between see an ordinary circuit."""
    region = symsim.system_region(s)
    saved = region.snapshot()
    if values is None:
        symsim.instrument(s)
        vars_ = D.symbolize_state(s)
        Iw = symsim.poke_fresh(list(ins.values()), 'i_')
        vars_.update(('i:' + n, Iw[w]) for n, w in ins.items())
    else:
        vars_ = {}
        D.load_concrete_state(s, values)
        for n, w in ins.items():
            w.put(values.get('i:' + n, 0))
    sim = s.getSimulator()
    with quiet():
        sim.clk(1)
    snap = D.snapshot_all(s)
    if values is None:
        symsim.uninstrument(s)
    region.restore(saved)
    return snap, vars_


def param_signature(text):
    """{module name without instance suffix: [(parameter, default or None)]} of a text (parser only)"""
    import re
    sig = {}
    for m in parse(text):
        base = re.sub(r'_[0-9a-f]{9,}$', '', m.name)
        sig.setdefault(base, []).append([(pn, None if dv is None else repr(getattr(dv, 'value', dv))) for pn, dv in m.params])
    return {k: sorted(v) for k, v in sig.items()}


def canonical_text(t):
    """the property's own relation: identical text up to the order of declarations and the instance-unique module suffixes"""
    t = re.sub(r'_[0-9a-f]{8,}\b', '_ID', t)
    mods = []
    for m in re.finditer(r'\bmodule\b(.*?)\bendmodule\b', t, re.S):
        head, _, body = m.group(1).partition(');')
        mods.append((' '.join(head.split()), sorted(' '.join(l.split()) for l in body.splitlines() if l.strip())))
    return sorted(mods)


def equivalent_texts(p, label, t1, t2, top=None):
    try:
        s1, s2 = param_signature(t1), param_signature(t2)
        p.structural('%s: same module parameters and defaults' % label, s1 == s2,
                     detail={'first': {k: v for k, v in s1.items() if s2.get(k) != v}, 'other': {k: v for k, v in s2.items() if s1.get(k) != v}})
    except (VlogSyntaxError, VlogUnsupported):
        pass
    try:
        d1 = elab.load(t1, top=top)
    except (VlogSyntaxError, VlogUnsupported) as e:
        if 'inout' in str(e):
            # bidirectional ports need a Z value the front end does not model: fall back to the relation the statement itself names
            c1, c2 = canonical_text(t1), canonical_text(t2)
            p.structural('%s: identical text up to the order of declarations and the instance-unique module suffixes (inout ports: no solver equivalence)' % label,
                         c1 == c2, detail={'only first': [m for m in c1 if m not in c2][:2], 'only other': [m for m in c2 if m not in c1][:2]})
            return
        p.inconclusive(label, 'front end (first text): %s' % e)
        return
    try:
        d2 = elab.load(t2, top=top)
    except VlogSyntaxError as e:
        p.structural('%s: the later text describes a design' % label, False, detail={'error': str(e), 'text': t2[:200]})
        return
    except VlogUnsupported as e:
        p.inconclusive(label, 'front end: %s' % e)
        return
    bad2 = [(n, dt) for n, ok_, dt in d2.obligations if not ok_]
    bad1 = [(n, dt) for n, ok_, dt in d1.obligations if not ok_]
    if not d1.fatal and not bad1 and (bad2 or (d2.fatal and bad2)):
        # the reference is a closed design, the later text is not: it does not describe the same design
        p.structural('%s: the later text resolves and elaborates like the reference' % label, False,
                     detail={'failed': [n for n, _ in bad2][:4], 'fatal': d2.fatal})
        return
    if d1.fatal or d2.fatal:
        p.inconclusive(label, 'front end: %s' % (d1.fatal or d2.fatal))
        return
    p.structural('%s: same top module and ports' % label,
                 d1.top == d2.top and d1.inputs == d2.inputs and d1.outputs == d2.outputs and
                 all(d1.nets[n].width == d2.nets[n].width for n in d1.inputs + d1.outputs if n in d2.nets),
                 detail={'first': [d1.top, d1.inputs, d1.outputs], 'other': [d2.top, d2.inputs, d2.outputs]})
    if d1.inputs != d2.inputs or d1.outputs != d2.outputs:
        return
    ins = {n: z3.BitVec('in_' + n, d1.nets[n].width) for n in d1.inputs}
    try:
        a0, b0 = elab.Sim(d1, ins, None), elab.Sim(d2, ins, None)
        st1, st2 = dict(a0.state_nets()), dict(b0.state_nets())
        p.structural('%s: same state variables' % label, st1 == st2, detail={'only first': sorted(set(st1) - set(st2)), 'only other': sorted(set(st2) - set(st1))})
        if st1 != st2:
            return
        diff = [k for k in a0.state if not z3.simplify(a0.state[k]).eq(z3.simplify(b0.state[k]))]
        p.structural('%s: same power-up state' % label, not diff,
                     detail={'differ': {k: [str(z3.simplify(a0.state[k])), str(z3.simplify(b0.state[k]))] for k in diff}})
        S = {n: z3.BitVec('st_' + n, w) for n, w in st1.items()}
        a, b = elab.Sim(d1, ins, S), elab.Sim(d2, ins, S)
        conds = [a.outputs()[o] != b.outputs()[o] for o in d1.outputs]
        if d1.seq_blocks or d2.seq_blocks:
            ck = 'CLOCK_50' if 'CLOCK_50' in d1.inputs else 'clk'
            n1, n2 = a.step(ck), b.step(ck)
            conds += [n1[k] != n2[k] for k in n1]
        p.prove('%s: outputs and next state equal for all inputs and states' % label, z3.Or(*conds) if conds else z3.BoolVal(False),
                inputs={**{'in:' + k: v for k, v in ins.items()}, **{'st:' + k: v for k, v in S.items()}})
        p.res['disagreements_checked'] += 1
    except VlogUnsupported as e:
        p.inconclusive(label, 'front end: %s' % e)


def seq_task(p, cfg, rec):
    dname, seq = cfg['design'], cfg['seq']
    wrapped = cfg.get('build') or wrap_in_box(DESIGNS[dname], 'seq')
    with quiet():
        s = new_system(dname)
        try:
            box, ins, outs, extra = wrapped(s)
        except Exception as e:
            p.res['refused'] += 1
            p.note('%s: constructor refused: %r' % (p.config, e))
            return
    before, vars_ = step_terms(s, ins)
    texts = []
    gens = {}
    g0 = graph_snapshot(s)
    try:
        texts.append((-1, 'reference: fresh generator before the sequence', gen('H', box, {})))
    except Exception as e:
        if cfg.get('build') and not cfg.get('must_generate'):
            # a block the generator cannot express: a refusal is not a purity matter (but it must leave the circuit alone)
            p.res['refused'] += 1
            p.structural('a refused generation leaves the object graph and block attributes unchanged', graph_snapshot(s) == g0)
            return
        p.structural('reference generation completes', False, detail={'exception': repr(e)})
    graph_changed = graph_snapshot(s) != g0
    p.structural('object graph and block attributes (ports, children order, wires, parameters, clock drivers, lists held by blocks) unchanged by the reference request',
                 not graph_changed)
    for k, kind in enumerate(seq):
        if kind.isdigit():
            with quiet():
                for w_ in ins.values():                       # all-ones inputs: enables active, registers move off their reset values
                    w_.put((1 << w_.getWidth()) - 1)
                s.getSimulator().clk(int(kind))
            continue
        g0 = graph_snapshot(s)
        try:
            t = gen(kind, box, gens)
        except Exception as e:
            p.structural('request %d (%s) completes' % (k, kind), False, detail={'exception': repr(e)})
            continue
        same_graph = graph_snapshot(s) == g0
        graph_changed = graph_changed or not same_graph
        p.structural('object graph and block attributes unchanged by request %d (%s)' % (k, kind), same_graph)
        if 'L' in gens and kind != 'L':
            p.structural('the list a caller supplied earlier is left alone by request %d (%s), which was not given it' % (k, kind),
                         gens['L'] == gens['L_snapshot'], detail={'list after the request that filled it': gens['L_snapshot'], 'list now': list(gens['L'])})
        if t is not None:
            texts.append((k, kind, t))
        p.res['programs'] += 1
    try:
        after, v2 = step_terms(s, ins)
    except Exception as e:
        # the same step was taken before the requests: the circuit could be simulated then
        p.structural('the circuit can still be simulated after the generation requests', False, detail={'exception': repr(e)})
        return
    p.structural('the circuit can still be simulated after the generation requests', True)
    conds = []
    keys = []
    for k in before:
        c = D.differ(before[k], after.get(k))
        if c is not False:
            conds.append(z3.BoolVal(True) if c is True else c)
            keys.append(k)
    p.structural('same set of wires and attributes before and after', sorted(before) == sorted(after))
    def replay(values):
        with quiet():
            s2 = new_system(dname)
            box2, ins2, outs2, extra2 = wrapped(s2)
        a, _ = step_terms(s2, ins2, values)
        g2 = {}
        for kind in seq:
            if kind.isdigit():
                with quiet():
                    for w_ in ins2.values():
                        w_.put((1 << w_.getWidth()) - 1)
                    s2.getSimulator().clk(int(kind))
            else:
                try:
                    gen(kind, box2, g2)
                except Exception:
                    pass
        b, _ = step_terms(s2, ins2, values)
        diff = {k: [a[k], b.get(k)] for k in a if a[k] != b.get(k)}
        return {'differences': dict(list(diff.items())[:6])} if diff else None
    if graph_changed:
        # already reported above; the state variables of the circuit are no longer the ones the first step was taken from
        # (e.g. a flag that changed its type), so the two symbolic steps are not comparable cell by cell
        p.note('%s: step comparison skipped, the object graph / block attributes were changed by a request (reported)' % p.config)
    else:
        p.prove('one clock step from any state gives the same values before and after generation (%d cells)' % len(before),
                z3.Or(*conds) if conds else z3.BoolVal(False), inputs=vars_, replay=replay)
    p.res['states'] += 1
    for k, kind, t in texts[1:]:
        equivalent_texts(p, 'text of request %d (%s) vs request %d (%s)' % (k, kind, texts[0][0], texts[0][1]), texts[0][2], t)


def ancestor_task(p, cfg, rec):
    """module text of a sub-block requested from different ancestors"""
    with quiet():
        s = py4hw.HWSystem()
        box, ins, outs, extra = wrap_in_box(d_hier, 'seq')(s)
    outer = box.children['outer']
    inner = outer.children['inner']
    cnt = outer.children['cnt']
    # a parametrised block two levels down (module parameter handed down from its parent)
    from .c03 import ParamBox
    with quiet():
        pa, pr = s.wire('pa', 8), s.wire('pr', 8)
        ptop = ParamBox(outer, 'ptop', pa, pr, 3, 1)
    pinner = ptop.children['inner']
    pleaf = pinner.children['leaf']
    for sub, nm in ((inner, 'inner'), (cnt, 'cnt'), (outer, 'outer'), (pleaf, 'parametrised leaf'), (pinner, 'parametrised block')):
        texts = []
        for anc, an in ((sub, 'itself'), (outer, 'outer'), (box, 'box'), (s, 'system')):
            out = io.StringIO()
            old = sys.stdout
            sys.stdout = out
            try:
                g = py4hw.VerilogGenerator(anc)
                t = g.getVerilogForHierarchy(obj=sub, noInstanceNumberInTopEntity=False)
                texts.append((an, t))
                p.res['programs'] += 1
            except Exception as e:
                p.structural('module %s requested from %s: generation completes' % (nm, an), False, detail={'exception': repr(e)})
            finally:
                sys.stdout = old
        for an, t in texts[1:]:
            equivalent_texts(p, 'module %s requested from %s vs from %s' % (nm, an, texts[0][0]), texts[0][1], t)
    # a sub-block with a clock driver of its own (gated domain 'gclk' under a root on 'clk'): its module as it appears inside the text
    # of the WHOLE system must have the interface of the module requested for the block itself
    from vlog.parser import parse as _parse
    with quiet():
        s2 = py4hw.HWSystem()
        d_, q_, q2_, en_, gck_ = s2.wire('d', 8), s2.wire('q', 8), s2.wire('q2', 8), s2.wire('en', 1), s2.wire('gclk', 1)
        py4hw.Buf(s2, 'clkgate', en_, gck_)

        def stage(b, dd=None):
            pass

        def mkstage(name, dd, qq):
            def body(b):
                m = b.wire('m', 8)
                Reg(b, 'r0', dd, m)
                Reg(b, 'r1', m, qq)
            return D.Box(s2, name, {'d': dd}, {'q': qq}, body)
        plain = mkstage('plain', d_, q2_)
        slow = mkstage('slow', d_, q_)
        slow.clockDriver = py4hw.ClockDriver('gclk', base=s2.clockDriver, enable=en_, wire=gck_)
    try:
        out = io.StringIO()
        old_ = sys.stdout
        sys.stdout = out
        try:
            whole = py4hw.VerilogGenerator(s2).getVerilogForHierarchy()
            own = py4hw.VerilogGenerator(slow).getVerilogForHierarchy(noInstanceNumberInTopEntity=False)
        finally:
            sys.stdout = old_
        p.res['programs'] += 2
        mname = py4hw.getVerilogModuleName(slow, noInstanceNumber=False) if 'noInstanceNumber' in py4hw.getVerilogModuleName.__code__.co_varnames else None
        mods_whole = {m.name: m for m in _parse(whole)}
        mods_own = _parse(own)
        top_own = mods_own[0]
        cand = [m for n, m in mods_whole.items() if n == top_own.name]
        if not cand:
            p.inconclusive('gated sub-block', 'module %s not found in the text of the whole system' % top_own.name)
        else:
            pa = [(q.direction, q.name) for q in cand[0].ports]
            pb = [(q.direction, q.name) for q in top_own.ports]
            p.structural('module of a sub-block with its own clock driver: same ports inside the system text and when requested for the block itself',
                         sorted(pa) == sorted(pb), detail={'inside the system text': pa, 'requested for the block': pb})
    except Exception as e:
        p.res['refused'] += 1
        p.note('gated sub-block: generator refused: %r' % e)


def tasks_for(tier):
    quick = tier == 'quick'
    seqs = [['H', 'H'], ['h', 'h'], ['H', 'M', 'H'], ['H', 'O', 'H'], ['S', 'H'], ['H', '2', 'H'], ['M', 'H', 'h'],
            ['c', 'h'], ['p', 'h'], ['m', 'h'], ['h', 'p', 'h'], ['h', 'c', 'S'], ['L', 'h'], ['L', 'c', 'L', 'm'], ['L', 'p', 'H'], ['3', 'H'], ['h', '1', 'h', '2', 'h']]
    if not quick:
        seqs += [['h', 'O', 'h'], ['H', '1', 'h', '3', 'H'], ['S', 'S'], ['O', 'H', 'O', 'h'], ['M', 'M', 'H'], ['H', 'S', 'h']]
    t = []
    for dn in DESIGNS:
        for sq in seqs:
            t.append(('%s: requests %s' % (dn, ' '.join(sq)), seq_task, {'design': dn, 'seq': sq}))
    # purity over the C01 corpus of library blocks: generate twice, compare graph, one symbolic step and the two texts
    seen_cls = set()
    for k, (name, cfg) in enumerate(c01.cfgs(tier, 0)):
        cls = name.split()[0]
        if cfg.get('assume') is not None:
            continue                      # Div/Mod: the simulator's result for a zero divisor is documented as arbitrary
        if cls in seen_cls and zlib.crc32(name.encode()) % (8 if quick else 2):
            continue                      # every block class at least once, plus a sample of its other configurations
        seen_cls.add(cls)
        t.append(('corpus %s: requests H H' % name, seq_task, {'design': name, 'seq': ['H', 'H'], 'build': cfg['build']}))
    for sq in (['H', 'H'], ['h', 'h'], ['c', 'h'], ['p', 'H'], ['M', 'H'], ['L', 'h']):
        t.append(('bidirectional pad (inout ports): requests %s' % ' '.join(sq), seq_task, {'design': 'bidirectional pad', 'seq': sq, 'build': build_pad, 'must_generate': True}))
    t.append(('sub-block modules requested from different ancestors', ancestor_task, {}))
    k3, k5 = 'constructor constants k=3', 'constructor constants k=5'
    inter = [[(k3, 'H'), (k5, 'H')], [(k5, 'H'), (k3, 'H'), (k5, 'h'), (k3, 'h')], [('behavioural leaves', 'H'), (k5, 'H'), ('structural', 'H'), (k3, 'H')]]
    cA, cB = 'registers with enable, default clock', 'registers with enable, clock named CLOCK_50'
    inter += [[(cA, 'H'), (cB, 'H')], [(cB, 'H'), (cA, 'H'), (cB, 'h')]]
    tA, tB = 'same-named behavioural classes, module A', 'same-named behavioural classes, module B'
    inter += [[(tA, 'H'), (tB, 'H')], [(tB, 'H'), (tA, 'H'), (tB, 'h')]]
    if not quick:
        inter += [[(k3, 'h'), (k5, 'h'), (k3, 'h'), (k5, 'h')], [(k5, 'S'), (k3, 'M'), (k3, 'H'), (k5, 'H')], [('hierarchy', 'H'), (k3, 'H'), ('hierarchy', 'h'), (k5, 'H')]]
    for od in inter:
        names = sorted(set(dn for dn, _ in od))
        t.append(('interleaved circuits vs fresh interpreter: %s' % ' '.join('%s(%s)' % (kind, dn.split()[-1]) for dn, kind in od), isolation_task,
                  {'designs': names, 'order': od}))
    return t


def main(argv=None):
    args = common.parse_args(PROP, argv)
    return common.run_check(
        PROP, 'translation_validation', tasks_for(args.tier), args, design_ref='DESIGN.md section 3 (C19)',
        technique='SMT equivalence (z3 QF_BV): terms of one symbolic clock step before vs after generation; every returned text elaborated (E2) and proved equivalent to the first text for the circuit',
        assumptions=['request kinds: H whole hierarchy with a fresh generator, h same generator object, S caller-supplied createdStructures (fresh generator, throw-away list), L the same generator given a list the caller keeps (that list must only change in requests that are given it), M single module (fresh generator), m/c/p the same generator object asked for the single top module / a child module / the hierarchy of a child, O generation for another circuit, digits = clk(n) in between; every text is compared with a reference generated by a fresh generator before the sequence',
                     'two-state Verilog semantics (see C01)'],
        bounds={'designs': sorted(DESIGNS), 'sequences': 'up to 3 generation requests (5 items) per sequence', 'sub-blocks': '3 sub-blocks x 4 ancestors',
                'corpus': 'every block class of the C01 corpus at least once plus a 1/8 (thorough 1/2) sample of its other configurations, requests H H; Div/Mod excluded (arbitrary result for a zero divisor)',
                'interleaving': 'up to 4 requests over 2..4 circuits, two of which instantiate the same behavioural classes with different constructor constants; reference text from a fresh interpreter per circuit'},
        trusted_base=['z3', 'symx', 'vlog front end'])


if __name__ == '__main__':
    sys.exit(main())
