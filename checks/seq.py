"""
Generic harness for sequential blocks: the real block runs under the real Simulator on
symbolic inputs and a symbolic pre-state; a reference machine written on z3 terms gives the
expected next state and outputs.

cfg = {
  'build': f(sys) -> {'ins': {name: Wire}, 'outs': {name: Wire}, 'regs': {name: leaf}, 'mems': {name: leaf}},
  'init':  {state name: int}                       reference power-up state
  'next':  f(S, I) -> {state name: z3 BV}          S, I: dicts of z3 BV (wire widths)
  'out':   f(S, I) -> {out name: z3 BV}            outputs as a function of (state, current inputs)
  'assume': f(S, I) -> z3 Bool  (optional)
  'bmc': K
}
Registers are py4hw Reg leaves (state = Reg.value == q wire); memories are leaves with a
`data` list plus registered read ports.
"""
import z3

from . import common
from .comb import quiet, zx, sx, concrete
from symx import core, symsim
from symx.core import ctx, SymbolicPathError, Unsupported

import py4hw


def find(obj, path):
    for part in path.split('/'):
        obj = obj.children[part]
    return obj


def reg_width(leaf):
    return leaf.q.getWidth()


def set_reg(leaf, v):
    leaf.value = v
    leaf.q.value = v


def _setup(cfg, rec=None, wrap=True):
    with quiet():
        s = py4hw.HWSystem()
        d = cfg['build'](s)
    d.setdefault('regs', {})
    d.setdefault('mems', {})
    if wrap:
        symsim.instrument(s, rec)
    mapped = set(id(l) for l in d['regs'].values()) | set(id(l) for l in d['mems'].values())
    # state the block has beyond its documented machine (e.g. a register a refactoring added): the inductive step cannot be
    # set up for it, the bounded run from power-up still compares every output with the reference
    d['_unmapped'] = [l.getFullPath() for l in symsim.sequential_leaves(s) if id(l) not in mapped]
    return s, d


def state_vars(d, tag):
    """fresh z3 vars for the whole reference state: registers and memory cells/read ports"""
    S = {}
    for n, l in d['regs'].items():
        S[n] = z3.BitVec('%s%s' % (tag, n), reg_width(l))
    for n, l in d['mems'].items():
        dw = mem_ports(l)[0][1].getWidth()
        for k in range(len(l.data)):
            S['%s[%d]' % (n, k)] = z3.BitVec('%s%s_%d' % (tag, n, k), dw)
        for pn, w in mem_ports(l):
            S['%s.%s' % (n, pn)] = z3.BitVec('%s%s_%s' % (tag, n, pn), w.getWidth())
    return S


def mem_ports(leaf):
    return [(p.name, p.wire) for p in leaf.outPorts]


def as_sym(v):
    return core.mk(z3.ZeroExt(1, v), 0, (1 << v.size()) - 1)


def load_state(d, S):
    for n, l in d['regs'].items():
        set_reg(l, as_sym(S[n]) if not isinstance(S[n], int) else S[n])
    for n, l in d['mems'].items():
        l.data = [as_sym(S['%s[%d]' % (n, k)]) if not isinstance(S['%s[%d]' % (n, k)], int) else S['%s[%d]' % (n, k)]
                  for k in range(len(l.data))]
        for pn, w in mem_ports(l):
            v = S['%s.%s' % (n, pn)]
            w.value = as_sym(v) if not isinstance(v, int) else v


def read_state(d):
    """current implementation state as {name: value}"""
    R = {}
    for n, l in d['regs'].items():
        R[n] = l.q.value
    for n, l in d['mems'].items():
        for k in range(len(l.data)):
            R['%s[%d]' % (n, k)] = l.data[k]
        for pn, w in mem_ports(l):
            R['%s.%s' % (n, pn)] = w.value
    return R


def widths_of(d):
    Wd = {}
    for n, l in d['regs'].items():
        Wd[n] = reg_width(l)
    for n, l in d['mems'].items():
        dw = mem_ports(l)[0][1].getWidth()
        for k in range(len(l.data)):
            Wd['%s[%d]' % (n, k)] = dw
        for pn, w in mem_ports(l):
            Wd['%s.%s' % (n, pn)] = w.getWidth()
    return Wd


def neq(v, term):
    w = term.size()
    lo, hi = core._bounds(v)
    c = core.to_term(v, w + 1) != z3.ZeroExt(1, term)
    if lo < 0 or hi >= (1 << w):
        c = z3.Or(c, core.as_z3_bool(v < 0), core.as_z3_bool(v >= (1 << w)))
    return c


def concrete_run(cfg, steps, init_state=None):
    """steps: list of {in name: int}; returns list of (outs, state) after power-up and after each clk(1).
    Uses the unwrapped real code."""
    s, d = _setup(cfg, wrap=False)
    trace = []
    with quiet():
        if steps:
            for n, w in d['ins'].items():
                w.put(steps[0].get(n, 0))
        sim = s.getSimulator()
        if init_state is not None:
            load_state(d, init_state)
            sim.propagateAll()
        trace.append(({n: w.get() for n, w in d['outs'].items()}, dict(read_state(d))))
        for st in steps:
            for n, w in d['ins'].items():
                w.put(st.get(n, 0))
            sim.clk(1)
            trace.append(({n: w.get() for n, w in d['outs'].items()}, dict(read_state(d))))
    return trace


def _cval(term, sub):
    t = z3.simplify(z3.substitute(term, *sub)) if sub else z3.simplify(term)
    if z3.is_bv_value(t):
        return t.as_long()
    if z3.is_true(t):
        return 1
    if z3.is_false(t):
        return 0
    raise common.HarnessError('reference term not closed: %s' % t)


def seq_task(p, cfg, rec):
    init = cfg['init']
    nxt = cfg['next']
    out = cfg['out']
    K = cfg.get('bmc', 4 if p.tier == 'quick' else 10)

    # ---------------- power-up ---------------------------------------------------------------
    try:
        s, d = _setup(cfg, rec)
    except common.HarnessError:
        raise
    except Exception as e:
        p.res['refused'] += 1
        p.note('%s: constructor refused: %r' % (p.config, e))
        return
    if d['_unmapped']:
        p.inconclusive('induction', 'sequential leaves outside the reference state machine (%s): inductive step skipped, bounded run from power-up only'
                       % ', '.join(d['_unmapped']))
        return _bmc(p, cfg, rec, init, nxt, out, K)
    Wd = widths_of(d)
    I0w = symsim.poke_fresh(list(d['ins'].values()), 'p_')
    I0 = {n: I0w[w] for n, w in d['ins'].items()}
    with quiet():
        sim = s.getSimulator()
    S0 = {n: z3.BitVecVal(init.get(n, 0), Wd[n]) for n in Wd}
    if cfg.get('assume'):
        p.assume(cfg['assume'](S0, I0), also_paths=False)
    exp = out(S0, I0)

    def replay_powerup(oname):
        def r(values):
            s2, d2 = _setup(cfg, wrap=False)
            with quiet():
                for n, w in d2['ins'].items():
                    w.put(values.get(n, 0))
                s2.getSimulator()
            got = d2['outs'][oname].get()
            sub = [(I0[n], z3.BitVecVal(values.get(n, 0), I0[n].size())) for n in I0]
            e = _cval(exp[oname], sub)
            return None if got == e else {'phase': 'power-up', 'output': oname, 'got': got, 'expected': e}
        return r
    if cfg.get('check_powerup', False):
        for on, w in d['outs'].items():
            p.prove('power-up:%s' % on, neq(w.get(), exp[on]), inputs=I0, replay=replay_powerup(on))
    p.assumptions = []
    ctx.set_assumptions([])

    # ---------------- one inductive step from an arbitrary state --------------------------------
    S = state_vars(d, 's_')
    load_state(d, S)
    Iw = symsim.poke_fresh(list(d['ins'].values()), 'i_')
    I = {n: Iw[w] for n, w in d['ins'].items()}
    if cfg.get('assume'):
        p.assume(cfg['assume'](S, I))
    allv0 = dict(('s:' + k, v) for k, v in S.items())
    allv0.update(('i:' + k, v) for k, v in I.items())
    try:
        with quiet():
            sim.clk(1)
    except SymbolicPathError as e:
        def replay_exc(values):
            st = {k: values['s:' + k] for k in S}
            inp = {k: values['i:' + k] for k in I}
            try:
                concrete_run(cfg, [inp], init_state=st)
            except Exception as ex:
                return {'phase': 'step', 'exception': repr(ex), 'from_state': st, 'inputs': inp}
            return None
        p.prove('step:no-exception', z3.And(*e.pc) if e.pc else z3.BoolVal(True), inputs=allv0, replay=replay_exc)
        return
    p.res['states'] += 1
    p.res['transitions'] += 1
    Sn = nxt(S, I)
    On = out(Sn, I)
    got_state = read_state(d)
    allv = dict(('s:' + k, v) for k, v in S.items())
    allv.update(('i:' + k, v) for k, v in I.items())

    def replay_step(kind, name):
        def r(values):
            st = {k: values['s:' + k] for k in S}
            inp = {k: values['i:' + k] for k in I}
            tr = concrete_run(cfg, [inp], init_state=st)
            sub = [(S[k], z3.BitVecVal(st[k], S[k].size())) for k in S] + [(I[k], z3.BitVecVal(inp[k], I[k].size())) for k in I]
            if kind == 'state':
                got = tr[1][1][name]
                e = _cval(Sn[name], sub)
            else:
                got = tr[1][0][name]
                e = _cval(On[name], sub)
            return None if got == e else {'phase': 'step', kind: name, 'got': got, 'expected': e, 'from_state': st}
        return r
    for n in S:
        if n not in Sn:
            raise common.HarnessError('reference next() lacks %s' % n)
        p.prove('step:state:%s' % n, neq(got_state[n], Sn[n]), inputs=allv, replay=replay_step('state', n),
                canary=neq(got_state[n], Sn[n] + 1))
    for on, w in d['outs'].items():
        p.prove('step:out:%s' % on, neq(w.get(), On[on]), inputs=allv, replay=replay_step('out', on))
    # Reg.value attribute stays in step with q (representation invariant preserved)
    for n, l in d['regs'].items():
        p.prove('step:inv:%s' % n, core.as_z3_bool((l.value & ((1 << reg_width(l)) - 1)) != l.q.value))
    # outputs that depend combinationally on the inputs (Mealy outputs, e.g. an edge detector): after the edge the inputs CHANGE
    # to fresh values and the outputs must follow the reference for the new inputs and the post-edge state
    if cfg.get('mealy', True) and d['ins']:
        got_regs = {n: (l.value, l.q.value) for n, l in d['regs'].items()}
        I2w = symsim.poke_fresh(list(d['ins'].values()), 'j_')
        I2 = {n: I2w[w] for n, w in d['ins'].items()}
        if cfg.get('assume'):
            p.assume(cfg['assume'](Sn, I2))
        try:
            with quiet():
                sim.propagateAll()
            O2 = out(Sn, I2)
            allv2 = dict(allv)
            allv2.update(('j:' + k, v) for k, v in I2.items())

            def replay_mealy(name):
                def r(values):
                    st = {k: values['s:' + k] for k in S}
                    inp = {k: values['i:' + k] for k in I}
                    inp2 = {k: values['j:' + k] for k in I2}
                    s_, d_ = _setup(cfg, wrap=False)
                    with quiet():
                        for n_, w_ in d_['ins'].items():
                            w_.put(inp.get(n_, 0))
                        sim_ = s_.getSimulator()
                        load_state(d_, st)
                        sim_.propagateAll()
                        sim_.clk(1)
                        for n_, w_ in d_['ins'].items():
                            w_.put(inp2.get(n_, 0))
                        sim_.propagateAll()
                    got = d_['outs'][name].get()
                    sub = [(S[k], z3.BitVecVal(st[k], S[k].size())) for k in S] + [(I[k], z3.BitVecVal(inp[k], I[k].size())) for k in I] + \
                          [(I2[k], z3.BitVecVal(inp2[k], I2[k].size())) for k in I2]
                    e = _cval(O2[name], sub)
                    return None if got == e else {'phase': 'inputs changed after the edge', 'out': name, 'got': got, 'expected': e, 'from_state': st,
                                                  'inputs at the edge': inp, 'inputs afterwards': inp2}
                return r
            for on, w in d['outs'].items():
                p.prove('after the edge, inputs changed: out:%s follows the new inputs' % on, neq(w.get(), O2[on]), inputs=allv2, replay=replay_mealy(on))
        except SymbolicPathError as e:
            p.inconclusive('inputs changed after the edge', 'exception on a symbolic path: %s' % e)
    terms = {'out:' + on: w.get() for on, w in d['outs'].items()}
    terms.update(('st:' + n, v) for n, v in got_state.items())

    def conc(values):
        st = {k: values['s:' + k] for k in S}
        inp = {k: values['i:' + k] for k in I}
        tr = concrete_run(cfg, [inp], init_state=st)
        r = {'out:' + k: v for k, v in tr[1][0].items()}
        r.update(('st:' + k, v) for k, v in tr[1][1].items())
        return r
    p.validate_terms(terms, allv, conc, n=2)
    p.assumptions = []
    ctx.set_assumptions([])

    return _bmc(p, cfg, rec, init, nxt, out, K)


def _bmc(p, cfg, rec, init, nxt, out, K):
    # ---------------- BMC from power-up ----------------------------------------------------------
    s, d = _setup(cfg, rec)
    Wd = widths_of(d)
    Is = []
    Iw = symsim.poke_fresh(list(d['ins'].values()), 'c0_')
    Is.append({n: Iw[w] for n, w in d['ins'].items()})
    with quiet():
        sim = s.getSimulator()
    Sref = {n: z3.BitVecVal(init.get(n, 0), Wd[n]) for n in Wd}
    allv = {}
    for k in range(K):
        if k > 0:
            Iw = symsim.poke_fresh(list(d['ins'].values()), 'c%d_' % k)
            Is.append({n: Iw[w] for n, w in d['ins'].items()})
        Ik = Is[k]
        allv.update(('c%d:%s' % (k, n), v) for n, v in Ik.items())
        if cfg.get('assume'):
            p.assume(cfg['assume'](Sref, Ik))
        with quiet():
            sim.clk(1)
        Sref = nxt(Sref, Ik)
        Ok = out(Sref, Ik)
        p.res['transitions'] += 1

        def replay_bmc(on, k=k, Ok=Ok):
            def r(values):
                steps = [{n: values.get('c%d:%s' % (j, n), 0) for n in d['ins']} for j in range(k + 1)]
                tr = concrete_run(cfg, steps)
                sub = [(Is[j][n], z3.BitVecVal(steps[j][n], Is[j][n].size())) for j in range(k + 1) for n in d['ins']]
                e = _cval(Ok[on], sub)
                got = tr[k + 1][0][on]
                return None if got == e else {'phase': 'bmc', 'cycle': k + 1, 'output': on, 'got': got, 'expected': e, 'inputs_per_cycle': steps}
            return r
        for on, w in d['outs'].items():
            p.prove('bmc%d:%s' % (k + 1, on), neq(w.get(), Ok[on]), inputs=dict(allv), replay=replay_bmc(on))
