"""
C17 -- the UART link delivers every byte once, unchanged and in order.

Real UARTSerializer -> (tx = rx) -> ClockGenerationAndRecovery -> UARTDeserializer under the
real simulator.  Bytes are symbolic; in the thorough tier the producer's valid and the
consumer's ready are fresh symbols per cycle as well.  The delivered-byte terms must equal the
sent symbols (solver), exactly once and in order, and an independent software 8N1 receiver
applied to the per-cycle tx terms must recover the same symbols.
"""
import sys

import z3

from . import common
from .comb import quiet, zx
from symx import core, symsim
from symx.core import ctx, SymInt, SymBool

import py4hw
from py4hw.logic.protocol.uart.serdes import UARTSerializer, UARTDeserializer
from py4hw.logic.protocol.uart.clock import ClockGenerationAndRecovery

PROP = 'C17'


def build(s, ratio):
    w = {}
    for n, width in (('ser_ready', 1), ('ser_valid', 1), ('ser_v', 8), ('line', 1), ('desync', 1), ('tx_clk_pulse', 1),
                     ('rx_sample', 1), ('des_ready', 1), ('des_valid', 1), ('des_v', 8)):
        w[n] = s.wire(n, width)
    ClockGenerationAndRecovery(s, 'uart_clock', w['line'], w['desync'], w['tx_clk_pulse'], w['rx_sample'], float(ratio), 1.0)
    UARTDeserializer(s, 'des', w['line'], w['rx_sample'], w['des_ready'], w['des_valid'], w['des_v'], w['desync'])
    UARTSerializer(s, 'ser', w['ser_ready'], w['ser_valid'], w['ser_v'], w['tx_clk_pulse'], w['line'])
    return w


def is_conc(v):
    return not core.is_sym(v)


def software_receiver(tx, ratio):
    """independent 8N1 receiver on the per-cycle line terms; returns list of byte terms.
    Idle/start/stop levels must be concrete (data independent)."""
    out = []
    t = 1
    n = len(tx)
    while t < n:
        a, b = tx[t - 1], tx[t]
        if not is_conc(b) or not is_conc(a):
            raise core.Unsupported('line level is data dependent where the software receiver expects idle/start (cycle %d)' % t)
        if a == 1 and b == 0:
            t0 = t
            bits = []
            last = t0 + 9 * ratio + ratio // 2
            if last >= n:
                break
            for i in range(8):
                bits.append(tx[t0 + ratio * (i + 1) + ratio // 2])
            stop = tx[last]
            if not is_conc(stop) or stop != 1:
                return out + [('framing error at cycle %d' % last,)]
            val = 0
            for i, bt in enumerate(bits):
                val = val | (bt << i)
            out.append(val)
            t = last + 1
        else:
            t += 1
    return out


def link_run(ratio, nbytes, gap, values=None, rec=None, horizon=None, lead=0):
    """quick mode: concrete control, symbolic bytes"""
    with quiet():
        s = py4hw.HWSystem()
        w = build(s, ratio)
        if values is None:
            symsim.instrument(s, rec)
        sim = s.getSimulator()
    vars_ = {}
    bytes_ = []
    for k in range(nbytes):
        if values is None:
            x, v = core.fresh('b%d' % k, 8)
            vars_['b%d' % k] = v
            bytes_.append(x)
        else:
            bytes_.append(values['b%d' % k])
    horizon = horizon or nbytes * (11 * ratio + gap) + 6 * ratio + 20 + lead
    tx = []
    delivered = []
    accepted = 0
    wait = lead                     # idle cycles before the first offer: every phase relative to the baud pulse
    w['des_ready'].put(1)
    for t in range(horizon):
        # producer: offer the next byte while any is left and the gap has elapsed
        if accepted < nbytes and wait == 0:
            w['ser_valid'].put(1)
            w['ser_v'].put(bytes_[accepted])
        else:
            w['ser_valid'].put(0)
            w['ser_v'].put(0)
        rdy = w['ser_ready'].get()
        vld = w['ser_valid'].get()
        if not is_conc(rdy):
            raise DataDependentControl('serializer ready at cycle %d' % t, rdy, vars_)
        with quiet():
            sim.clk(1)
        if wait > 0:
            wait -= 1
        # the serializer accepts in its READY state when valid is high: visible as ready dropping
        if vld == 1 and rdy == 1 and is_conc(w['ser_ready'].get()) and w['ser_ready'].get() == 0:
            accepted += 1
            wait = gap
        tx.append(w['line'].get())
        dv = w['des_valid'].get()
        if not is_conc(dv):
            raise DataDependentControl('deserializer valid at cycle %d' % t, dv, vars_)
        if dv == 1:
            delivered.append(w['des_v'].get())
    return delivered, tx, vars_, bytes_, accepted


class DataDependentControl(core.Unsupported):
    def __init__(self, msg, term, vars_):
        super().__init__(msg)
        self.term, self.vars_ = term, vars_


def quick_task(p, cfg, rec):
    ratio, nbytes, gap = cfg['ratio'], cfg['nbytes'], cfg['gap']
    lead = cfg.get('lead', 0)
    ctx.simplify_merge = True
    try:
        delivered, tx, vars_, bytes_, accepted = link_run(ratio, nbytes, gap, rec=rec, lead=lead)
    except DataDependentControl as e:
        # a handshake line depends on the byte values: pick byte values for both outcomes and replay them
        def replay(values):
            dl, txc, _, bs, acc = link_run(ratio, nbytes, gap, values=values, lead=lead)
            if dl != bs:
                return {'sent': bs, 'delivered': dl, 'ratio': ratio, 'gap': gap, 'note': str(e)}
            return None
        t = e.term
        c1 = core.as_z3_bool(t != 0)
        r1 = p.prove('handshake line independent of the data (%s), case high' % e, c1, inputs=e.vars_, replay=replay)
        if r1 is None:
            p.prove('handshake line independent of the data (%s), case low' % e, z3.Not(c1), inputs=e.vars_, replay=replay)
        return
    p.res['states'] += 1
    p.res['transitions'] += len(tx)

    def replay(values):
        dl, txc, _, bs, acc = link_run(ratio, nbytes, gap, values=values, lead=lead)
        sw = software_receiver([1] + txc, ratio)
        if dl != bs or sw != bs:
            return {'sent': bs, 'delivered': dl, 'software_receiver': [x if not isinstance(x, tuple) else x[0] for x in sw], 'ratio': ratio, 'gap': gap}
        return None
    p.structural('all %d bytes are accepted by the serializer within the horizon' % nbytes, accepted == nbytes,
                 detail={'accepted': accepted})
    p.structural('exactly %d bytes are presented by the deserializer' % nbytes, len(delivered) == nbytes,
                 detail={'presented': len(delivered), 'ratio': ratio, 'gap': gap})
    for k in range(min(nbytes, len(delivered))):
        c = (delivered[k] != bytes_[k])
        c = z3.BoolVal(c) if isinstance(c, bool) else c.b
        p.prove('delivered byte %d == sent byte %d' % (k, k), c, inputs=vars_, replay=replay,
                canary=(z3.BoolVal(True) if isinstance(delivered[k], int) else (delivered[k] != (bytes_[k] ^ 1)).b if core.is_sym(delivered[k] != (bytes_[k] ^ 1)) else z3.BoolVal(True)))
    sw = software_receiver([1] + tx, ratio)
    frerr = [x for x in sw if isinstance(x, tuple)]
    p.structural('software 8N1 receiver sees no framing error', not frerr, detail={'errors': [x[0] for x in frerr]})
    sw = [x for x in sw if not isinstance(x, tuple)]
    p.structural('software 8N1 receiver recovers exactly %d bytes' % nbytes, len(sw) == nbytes, detail={'recovered': len(sw)})
    for k in range(min(nbytes, len(sw))):
        c = (sw[k] != bytes_[k])
        c = z3.BoolVal(c) if isinstance(c, bool) else c.b
        p.prove('software receiver byte %d == sent byte %d' % (k, k), c, inputs=vars_, replay=replay)


# ---------------------------------------------------------------------------------------------------
# symbolic receiver pacing: the consumer's ready is a fresh symbol every cycle (bounded stalls)

def sym_task(p, cfg, rec):
    ratio, nbytes, gap, stall = cfg['ratio'], cfg['nbytes'], cfg['gap'], cfg['stall']
    ctx.simplify_merge = True
    with quiet():
        s = py4hw.HWSystem()
        w = build(s, ratio)
        symsim.instrument(s, rec)
        sim = s.getSimulator()
    vars_ = {}
    bytes_ = []
    for k in range(nbytes):
        x, v = core.fresh('b%d' % k, 8)
        vars_['b%d' % k] = v
        bytes_.append(x)
    horizon = nbytes * (11 * ratio + gap) + 6 * ratio + 20 + 2 * stall
    acc = 0
    wait = 0
    dlv = 0
    viol = []
    readies = []
    for t in range(horizon):
        if acc < nbytes and wait == 0:
            w['ser_valid'].put(1)
            w['ser_v'].put(bytes_[acc])
        else:
            w['ser_valid'].put(0)
            w['ser_v'].put(0)
        rb, rv = core.fresh_bool('ready_%d' % t)
        vars_['ready_%d' % t] = rv
        readies.append(rv)
        if len(readies) >= stall + 1:
            p.assume(z3.Or(*readies[-(stall + 1):]))          # never more than `stall` consecutive not-ready cycles
        w['des_ready'].put(core.ite(rb, 1, 0))
        rdy = w['ser_ready'].get()
        vld = w['ser_valid'].get()
        dv = w['des_valid'].get()                             # valid as seen by the consumer in this cycle
        got = w['des_v'].get()
        hs = z3.And(core.as_z3_bool(dv == 1) if core.is_sym(dv) else z3.BoolVal(dv == 1), rv)
        exp = 0
        for k in reversed(range(nbytes)):
            exp = core.ite(dlv == k, bytes_[k], exp)
        ne = (got != exp)
        ne = z3.BoolVal(ne) if isinstance(ne, bool) else ne.b
        over = (dlv >= acc)
        over = z3.BoolVal(over) if isinstance(over, bool) else over.b
        viol.append(z3.And(hs, z3.Or(ne, over)))
        dlv = core.simplify_value(core.ite(hs, dlv + 1, dlv))
        with quiet():
            sim.clk(1)
        if wait > 0:
            wait -= 1
        if vld == 1 and rdy == 1 and w['ser_ready'].get() == 0:
            acc += 1
            wait = gap
        p.res['transitions'] += 1
    p.res['states'] += 1
    rp = lambda values: sym_replay(ratio, nbytes, gap, stall, values)
    p.structural('all %d bytes are accepted by the serializer within the horizon' % nbytes, acc == nbytes)
    p.prove('every valid&&ready hand-off carries the next sent byte (no loss, duplication, reordering) for all ready timings',
            z3.Or(*viol), inputs=vars_, replay=rp, timeout_s=300)
    fin = (dlv != nbytes)
    fin = z3.BoolVal(fin) if isinstance(fin, bool) else fin.b
    p.prove('all %d bytes are handed off exactly once by the end of the horizon' % nbytes, fin, inputs=vars_, replay=rp, timeout_s=300)


def sym_replay(ratio, nbytes, gap, stall, values):
    with quiet():
        s = py4hw.HWSystem()
        w = build(s, ratio)
        sim = s.getSimulator()
    bs = [values['b%d' % k] for k in range(nbytes)]
    horizon = nbytes * (11 * ratio + gap) + 6 * ratio + 20 + 2 * stall
    acc = wait = dlv = 0
    for t in range(horizon):
        if acc < nbytes and wait == 0:
            w['ser_valid'].put(1)
            w['ser_v'].put(bs[acc])
        else:
            w['ser_valid'].put(0)
            w['ser_v'].put(0)
        r = values.get('ready_%d' % t, 0)
        w['des_ready'].put(r)
        rdy, vld = w['ser_ready'].get(), w['ser_valid'].get()
        if w['des_valid'].get() == 1 and r:
            got = w['des_v'].get()
            if dlv >= acc or got != bs[dlv]:
                return {'cycle': t, 'handoff_index': dlv, 'got': got, 'sent': bs, 'accepted_so_far': acc}
            dlv += 1
        with quiet():
            sim.clk(1)
        if wait > 0:
            wait -= 1
        if vld == 1 and rdy == 1 and w['ser_ready'].get() == 0:
            acc += 1
            wait = gap
    if dlv != nbytes:
        return {'handed_off': dlv, 'sent': bs, 'ready_pattern': [values.get('ready_%d' % t, 0) for t in range(horizon)]}
    return None


def tasks_for(tier):
    quick = tier == 'quick'
    t = []
    for ratio in ((4, 5, 6, 8) if quick else (4, 5, 6, 7, 8, 10, 12, 14, 16)):
        gaps = sorted(set(range(0, 2 * ratio + 1, 1 if quick and ratio <= 4 else (2 if quick else 1))))
        if quick and ratio == 5:
            gaps = [0, 3]
        for gap in gaps:
            t.append(('link ratio %d, 3 symbolic bytes, gap %d cycles' % (ratio, gap), quick_task, {'ratio': ratio, 'nbytes': 3, 'gap': gap}))
    # the first offer at every phase of the bit period (idle cycles before the first byte), bytes back to back afterwards
    # large divider ratios (the statement says EVERY ratio of at least 4): real baud settings such as 100 MHz / 115200 (868 clocks per
    # bit) run for about 10**4 cycles per byte; 1 symbolic byte (quick: one ratio), 2 bytes at a few more ratios in the thorough tier
    for ratio, nb in (((1000, 1),) if quick else ((100, 2), (434, 2), (868, 2), (1000, 1), (2604, 1), (5208, 1))):
        t.append(('link ratio %d (large divider), %d symbolic byte(s), gap 0 cycles' % (ratio, nb), quick_task, {'ratio': ratio, 'nbytes': nb, 'gap': 0}))
    for ratio in ((4, 5, 8) if quick else (4, 5, 6, 7, 8, 12, 16)):
        for lead in range(1, 2 * ratio + 1):
            t.append(('link ratio %d, 3 symbolic bytes, gap 0 cycles, first offer after %d idle cycles' % (ratio, lead), quick_task,
                      {'ratio': ratio, 'nbytes': 3, 'gap': 0, 'lead': lead}))
    for ratio in ((4, 8) if quick else (4, 5, 6, 8, 12, 16)):
        for gap in ((0,) if quick else (0, 1, ratio)):
            for stall in ((ratio, 3 * ratio) if quick and ratio == 4 else (ratio,) if quick else (1, ratio, 3 * ratio)):
                t.append(('link ratio %d, 2 symbolic bytes, gap %d, symbolic consumer ready (stalls <= %d cycles)' % (ratio, gap, stall),
                          sym_task, {'ratio': ratio, 'nbytes': 2, 'gap': gap, 'stall': stall}))
    return t


def main(argv=None):
    args = common.parse_args(PROP, argv)
    return common.run_check(
        PROP, 'model_checking', tasks_for(args.tier), args, design_ref='DESIGN.md section 3 (C17)',
        technique='symbolic execution of the real serializer + clock recovery + deserializer under the real simulator (BMC); delivered-byte terms compared with the sent symbols by z3; independent software 8N1 receiver on the line terms',
        assumptions=['both ends run from the same system clock (one HWSystem)', 'producer holds data stable while valid; a byte counts as accepted when the serializer leaves its READY state with valid high',
                     'quick tier: receiver always ready, valid held until accepted, gaps enumerated'],
        bounds={'ratios': '4,5,6,8 clocks/bit and one large ratio (1000) (quick); 4..16 and 100, 434, 868, 1000, 2604, 5208 (thorough)', 'bytes': '3 symbolic bytes per run (all 2**24 value combinations)',
                'gaps': '0..2 bit times in clock steps', 'symbolic handshakes': 'quick: 1 byte/60 cycles at ratio 4; thorough: 2 bytes at ratios 4 and 6',
                'outside': 'ratios other than the listed ones, clock mismatch between two systems, more than 3 frames'},
        trusted_base=['z3', 'symx operator semantics and fork-and-merge shell', 'software receiver and monitors in checks/c17.py'], task_limit=3000)


if __name__ == '__main__':
    sys.exit(main())
