"""
C06 -- wire values always fit their declared width.

For every design of the C07/C08/C09 grids (plus constants / stimulus with symbolic,
possibly negative or oversized values): symbolic inputs, symbolic in-range register state,
real simulator; at every observation point (after getSimulator(), after each clk(1), inside
a simulator listener, in a Waveform recording) the solver is asked for an input making ANY
wire value negative or >= 2**width.  The value terms are exact unbounded integers, so a
dropped mask in Wire.put/prepare or a direct write to Wire.value is visible.
"""
import itertools
import sys
import zlib

import z3

from . import common
from .comb import quiet
from . import c07, c08, c09
from symx import core, symsim
from symx.core import SymInt, SymBool

import py4hw
from py4hw.logic.bitwise import Constant, Not, ShiftLeftConstant, Repeat
from py4hw.logic.storage import Reg
from py4hw.logic.simulation import Sequence, Waveform, RandomValue

PROP = 'C06'


def out_of_range(v, w):
    """z3 Bool (or python bool) : v is not in [0, 2**w)"""
    if isinstance(v, SymBool):
        return False
    if isinstance(v, SymInt):
        n = max(v.t.size(), w + 2)
        t = core._ext(v.t, n)
        return z3.Or(t < 0, t >= z3.BitVecVal(1 << w, n))
    if not isinstance(v, int):
        return True
    return not (0 <= v < (1 << w))


class Listener:
    def __init__(self, wires):
        self.wires = wires
        self.snaps = []

    def simulatorUpdated(self):
        self.snaps.append([w.value for w in self.wires])


class _Randint:
    """random.randint is environment: the library documents the result of a division by zero as arbitrary and draws it with
    random.randint(lo, hi).  Symbolic runs: ANY integer of the closed interval [lo, hi] (a fresh symbol per call); replays: the
    largest / smallest / a middle legal draw (each is a behaviour the real code can show)"""

    def __init__(self, policy):
        self.policy = policy
        self.n = 0
        import random
        self.real = random.randint

    def __call__(self, lo, hi):
        self.n += 1
        if self.policy == 'symbolic':
            return core.fresh_range('randint%d' % self.n, lo, hi)[0]
        return {'hi': hi, 'lo': lo, 'mid': (lo + hi) // 2}[self.policy]

    def __enter__(self):
        import random
        random.randint = self
        return self

    def __exit__(self, *a):
        import random
        random.randint = self.real


def range_task(p, cfg, rec):
    try:
        with _Randint('symbolic'):
            return _range_task(p, cfg, rec)
    finally:
        if cfg.get('cleanup'):
            cfg['cleanup']()


def _range_task(p, cfg, rec):
    kind = cfg['kind']
    with quiet():
        s = py4hw.HWSystem()
        try:
            if kind == 'comb':
                ins, outs = cfg['build'](s)
                d = {'ins': ins, 'regs': {}, 'mems': {}}
            else:
                d = cfg['build'](s)
                d.setdefault('regs', {})
                d.setdefault('mems', {})
        except Exception as e:
            p.res['refused'] += 1
            return
    consts = cfg['symbolize'](s, d) if cfg.get('symbolize') else {}
    wires = symsim.all_wires(s)
    wf = None
    if cfg.get('waveform', True):
        watch = [w for w in wires if w.name != 'clk'][:6]
        with quiet():
            wf = Waveform(s, 'c06_wvf', watch)
    symsim.instrument(s, rec)
    vars_ = dict(consts)
    Iw = symsim.poke_fresh(list(d['ins'].values()), 'i0_')
    vars_.update(('i0_' + n, Iw[w]) for n, w in d['ins'].items())
    # symbolic, in-range register and memory state
    from .seq import state_vars, load_state
    if d['regs'] or d['mems']:
        S = state_vars(d, 's_')
        load_state(d, S)
        vars_.update(('s_' + k, v) for k, v in S.items())
    if cfg.get('assume'):
        V = {n: Iw[w] for n, w in d['ins'].items()}
        try:
            p.assume(cfg['assume'](V))
        except TypeError:
            pass
    points = []
    with quiet():
        sim = s.getSimulator()
    lst = Listener(wires)
    sim.addListener(lst)
    points.append(('after getSimulator()', [w.value for w in wires]))
    for k in (1, 2):
        if k == 2:
            Iw = symsim.poke_fresh(list(d['ins'].values()), 'i1_')
            vars_.update(('i1_' + n, Iw[w]) for n, w in d['ins'].items())
        with quiet():
            sim.clk(1)
        points.append(('after clk #%d' % k, [w.value for w in wires]))
        p.res['transitions'] += 1
    for k, snap in enumerate(lst.snaps):
        points.append(('listener call #%d' % (k + 1), snap))
    p.res['states'] += len(points)
    for label, vals in points:
        conds = []
        bad_concrete = None
        for w, v in zip(wires, vals):
            c = out_of_range(v, w.getWidth())
            if c is True:
                bad_concrete = (w, v)
            elif c is not False:
                conds.append(c)
        p.structural('%s: concrete wire values in range' % label, bad_concrete is None,
                     detail=None if bad_concrete is None else {'wire': bad_concrete[0].getFullPath(), 'value': repr(bad_concrete[1])})
        if conds:
            def replay(values, label=label):
                return {'note': 'solver model', 'point': label, 'values': values}
            p.prove('%s: all %d symbolic wire values in [0,2**width)' % (label, len(conds)), z3.Or(*conds), inputs=vars_,
                    replay=(lambda values, label=label: concrete_replay(cfg, values, label)))
    if wf is not None:
        conds = []
        for w, data in wf.data.items():
            for v in data:
                c = out_of_range(v, w.getWidth())
                if c is True:
                    p.structural('waveform sample in range', False, detail={'wire': w.getFullPath(), 'value': repr(v)})
                elif c is not False:
                    conds.append(c)
        if conds:
            p.prove('waveform: all %d recorded samples in range' % len(conds), z3.Or(*conds), inputs=vars_,
                    replay=(lambda values: concrete_replay(cfg, values, 'waveform')))


def concrete_replay(cfg, values, label):
    try:
        for policy in ('hi', 'lo', 'mid'):
            with _Randint(policy):
                r = _concrete_replay(cfg, values, label)
            if r is not None:
                r['random.randint draws'] = 'every draw = %s of its interval' % policy
                return r
        return None
    finally:
        if cfg.get('cleanup'):
            cfg['cleanup']()


def _concrete_replay(cfg, values, label):
    """re-run the unwrapped real code with the model's values and look for an out-of-range wire"""
    from .seq import load_state
    with quiet():
        s = py4hw.HWSystem()
        if cfg['kind'] == 'comb':
            ins, outs = cfg['build'](s)
            d = {'ins': ins, 'regs': {}, 'mems': {}}
        else:
            d = cfg['build'](s)
            d.setdefault('regs', {})
            d.setdefault('mems', {})
        if cfg.get('symbolize'):
            cfg['symbolize'](s, d, values)
        wires = symsim.all_wires(s)
        wf = Waveform(s, 'c06_wvf', [w for w in wires if w.name != 'clk'][:6])
        for n, w in d['ins'].items():
            w.put(values.get('i0_' + n, 0))
        st = {k[2:]: v for k, v in values.items() if k.startswith('s_')}
        if st:
            load_state(d, st)
        bad = []

        def scan(where):
            for w in wires:
                v = w.value
                if not isinstance(v, int) or not (0 <= v < (1 << w.getWidth())):
                    bad.append({'where': where, 'wire': w.getFullPath(), 'width': w.getWidth(), 'value': repr(v)})
        sim = s.getSimulator()

        class L:
            def simulatorUpdated(self_):
                scan('listener')
        sim.addListener(L())
        scan('after getSimulator()')
        sim.clk(1)
        scan('after clk #1')
        for n, w in d['ins'].items():
            w.put(values.get('i1_' + n, 0))
        sim.clk(1)
        scan('after clk #2')
        for w, data in wf.data.items():
            for v in data:
                if not isinstance(v, int) or not (0 <= v < (1 << w.getWidth())):
                    bad.append({'where': 'waveform', 'wire': w.getFullPath(), 'value': repr(v)})
    return bad[0] if bad else None


class _TwiceBlock(py4hw.Logic):
    """user-written behavioural block in the 'default assignment first, override later' style: the same wire is written twice in
    one evaluation (the library tolerates a second prepare with a warning, the last value wins), with raw results of any sign and size"""

    def __init__(self, parent, name, a, b, q, r, mode):
        super().__init__(parent, name)
        self.a = self.addIn('a', a)
        self.b = self.addIn('b', b)
        self.q = self.addOut('q', q)
        self.r = self.addOut('r', r)
        self.mode = mode

    def clock(self):
        a, b = self.a.get(), self.b.get()
        if self.mode == 0:
            self.q.prepare(a)
            self.q.prepare(a - b)            # negative
            self.r.prepare(0)
            self.r.prepare(a * b * 37)       # oversized
        elif self.mode == 1:
            self.q.prepare(a - b)
            self.q.prepare(~a)
            self.r.prepare(a << 9)
            self.r.prepare(b)
        else:
            self.q.prepare(a)
            if b > a:
                self.q.prepare(a - b)
            self.r.prepare(-1)
            self.r.prepare(-b)
            self.r.prepare((a + 1) << 7)


class _TwicePut(py4hw.Logic):
    def __init__(self, parent, name, a, b, r):
        super().__init__(parent, name)
        self.a = self.addIn('a', a)
        self.b = self.addIn('b', b)
        self.r = self.addOut('r', r)

    def propagate(self):
        self.r.put(0)
        self.r.put(self.a.get() - self.b.get() * 3)


def extra_cfgs(tier):
    """constants, stimulus and reset values that are negative or oversized (symbolic where the
    constructor only stores the value)"""
    quick = tier == 'quick'

    def const_cfg(w):
        def build(s):
            r = s.wire('r', w)
            n = s.wire('n', w)
            Constant(s, 'k', 0, r)
            Not(s, 'not', r, n)
            return {'ins': {}}

        def symbolize(s, d, values=None):
            leaf = s.children['k']
            if values is not None:
                leaf.value = values.get('k', 0) - (1 << (w + 2)) if 'k' in values else 0
                return {}
            x, v = core.fresh('k', w + 4)
            leaf.value = x - (1 << (w + 2))          # any integer in [-2**(w+2), 3*2**(w+2))
            return {'k': v}
        return {'kind': 'seq', 'build': build, 'symbolize': symbolize}

    def seq_cfg(w, n, once, bidir=False):
        def build(s):
            r = s.bidir_wire('r', w) if bidir else s.wire('r', w)
            Sequence(s, 'seq', [0] * n, r, once=once)
            return {'ins': {}, 'regs': {}, 'mems': {}}

        def symbolize(s, d, values=None):
            leaf = s.children['seq']
            if values is not None:
                leaf.values = [values.get('v%d' % k, 0) - (1 << (w + 1)) for k in range(n)]
                return {}
            vs = {}
            vals = []
            for k in range(n):
                x, v = core.fresh('v%d' % k, w + 3)
                vals.append(x - (1 << (w + 1)))
                vs['v%d' % k] = v
            leaf.values = vals
            return vs
        return {'kind': 'seq', 'build': build, 'symbolize': symbolize}

    def rnd_cfg(w):
        """RandomValue: the random source is the environment -- numpy.random.normal is stubbed to return an ARBITRARY
        integer-valued draw per call (any sign, wider than the wire)"""
        import numpy as np
        import py4hw.logic.simulation as simmod
        from symx import shims
        real = np.random.normal

        def build(s):
            r = s.wire('r', w)
            RandomValue(s, 'rnd', r, 0, 1.0)
            return {'ins': {}, 'regs': {}, 'mems': {}}

        def symbolize(s, d, values=None):
            count = [0]
            vs = {}

            def draw(mean=0.0, std=1.0, *a, **k):
                k_ = count[0]
                count[0] += 1
                if values is not None:
                    return float(values.get('draw%d' % k_, 0) - (1 << (w + 2)))
                x, v = core.fresh('draw%d' % k_, w + 4)
                vs['draw%d' % k_] = v
                return x - (1 << (w + 2))
            np.random.normal = draw
            if values is None:
                shims.install(simmod, ('int',))
            return vs

        def cleanup():
            np.random.normal = real
            shims.uninstall(simmod, ('int',))
        return {'kind': 'seq', 'build': build, 'symbolize': symbolize, 'cleanup': cleanup}

    def mem_cfg(dual, wdw, rdw):
        """synchronous memory whose written word is wider than the read port (content starts at zero; two clocks
        with fresh inputs each: write a wide word, read it back)"""
        from py4hw.logic.storage import SynchronousMemory, DualPortSynchronousMemory

        def build(s):
            ins = {}

            def I(n, w):
                ins[n] = s.wire(n, w)
                return ins[n]
            if dual:
                DualPortSynchronousMemory(s, 'mem', I('ra_a', 1), I('wa_a', 1), I('we_a', 1), s.wire('rd_a', rdw), I('wd_a', wdw),
                                          I('ra_b', 1), I('wa_b', 1), I('we_b', 1), s.wire('rd_b', rdw), I('wd_b', wdw))
            else:
                SynchronousMemory(s, 'mem', I('ra', 1), I('wa', 1), I('we', 1), s.wire('rd', rdw), I('wd', wdw))
            return {'ins': ins}
        return {'kind': 'seq', 'build': build}

    def regrv_cfg(w, bidir=False):
        def build(s):
            d, q, r = s.wire('d', w + 2), (s.bidir_wire('q', w) if bidir else s.wire('q', w)), s.wire('r', 1)
            leaf = Reg(s, 'reg', d, q, reset=r, reset_value=0)
            return {'ins': {'d': d, 'r': r}, 'regs': {'reg': leaf}}

        def symbolize(s, d, values=None):
            leaf = s.children['reg']
            if values is not None:
                leaf.reset_value = values.get('rv', 0) - (1 << (w + 1))
                return {}
            x, v = core.fresh('rv', w + 3)
            leaf.reset_value = x - (1 << (w + 1))
            return {'rv': v}
        return {'kind': 'seq', 'build': build, 'symbolize': symbolize}

    def twice_cfg(w, qw, mode):
        def build(s):
            a, b = s.wire('a', w), s.wire('b', w)
            q, r, c = s.wire('q', qw), s.wire('r', qw), s.wire('c', qw)
            _TwiceBlock(s, 'blk', a, b, q, r, mode)
            _TwicePut(s, 'cmb', q, r, c)
            return {'ins': {'a': a, 'b': b}}
        return {'kind': 'seq', 'build': build}

    for w, qw in (((4, 4), (8, 3)) if quick else ((4, 4), (8, 3), (1, 1), (3, 8), (16, 16))):
        for mode in (0, 1, 2):
            yield 'user block writing one wire several times per evaluation (mode %d) w%d q%d' % (mode, w, qw), twice_cfg(w, qw, mode)
    for dual in (False, True):
        for wdw, rdw in (((8, 4), (3, 3)) if quick else ((8, 4), (3, 3), (4, 8), (2, 1), (16, 8))):
            yield '%sSynchronousMemory written word %d bits, read port %d bits' % ('DualPort' if dual else '', wdw, rdw), mem_cfg(dual, wdw, rdw)
    # clocked drivers of a bidirectional net (hw.bidir_wire): the same range must hold there
    for w in ([1, 4] if quick else [1, 2, 4, 8, 16]):
        yield 'Sequence(symbolic any-sign values) onto a bidirectional wire w%d n3' % w, seq_cfg(w, 3, False, bidir=True)
        yield 'Reg(symbolic any-sign reset_value, wider d) onto a bidirectional wire w%d' % w, regrv_cfg(w, bidir=True)
    for w in ([1, 3, 8] if quick else [1, 2, 3, 4, 8, 16, 32]):
        yield 'Constant(symbolic any-sign value)+Not w%d' % w, const_cfg(w)
        yield 'Reg(symbolic any-sign reset_value, wider d) w%d' % w, regrv_cfg(w)
        yield 'RandomValue(arbitrary draws of any sign and size) w%d' % w, rnd_cfg(w)
        for n in (1, 3):
            for once in (False, True):
                yield 'Sequence(symbolic any-sign values) w%d n%d once%d' % (w, n, once), seq_cfg(w, n, once)


def mixed_width_cfgs(tier):
    """every primitive leaf with all its ports at independent widths (a value wider than the wire it is
    written to is exactly where the mask matters)"""
    from py4hw.logic.bitwise import (Mux2, And2, Or2, Buf, Not, ShiftLeftConstant, ShiftRightConstant, Range, Bit, Repeat,
                                      ConcatenateLSBF, ConcatenateMSBF, BitsLSBF)
    from py4hw.logic.arithmetic import AddCarryIn, Sub, Mul, SignedMul, SignExtend, ZeroExtend, Div, Mod
    from py4hw.logic.storage import Latch
    quick = tier == 'quick'
    ws = [1, 3, 4] if quick else [1, 2, 3, 5, 8]
    W = lambda s, n, w: s.wire(n, w)

    def comb(name, nin, mk):
        for widths in itertools.product(ws, repeat=nin + 1):
            def build(s, widths=widths):
                ins = {'i%d' % k: W(s, 'i%d' % k, widths[k]) for k in range(nin)}
                r = W(s, 'r', widths[nin])
                mk(s, list(ins.values()), r)
                return ins, {'r': r}
            yield 'mixed %s %s' % (name, 'x'.join(map(str, widths))), {'kind': 'comb', 'build': build}
    yield from comb('Mux2', 3, lambda s, i, r: Mux2(s, 'd', i[0], i[1], i[2], r))
    yield from comb('And2', 2, lambda s, i, r: And2(s, 'd', i[0], i[1], r))
    yield from comb('Or2', 2, lambda s, i, r: Or2(s, 'd', i[0], i[1], r))
    yield from comb('Buf', 1, lambda s, i, r: Buf(s, 'd', i[0], r))
    yield from comb('Not', 1, lambda s, i, r: Not(s, 'd', i[0], r))
    yield from comb('ZeroExtend', 1, lambda s, i, r: ZeroExtend(s, 'd', i[0], r))
    yield from comb('SignExtend', 1, lambda s, i, r: SignExtend(s, 'd', i[0], r))
    yield from comb('Sub', 2, lambda s, i, r: Sub(s, 'd', i[0], i[1], r))
    yield from comb('Mul', 2, lambda s, i, r: Mul(s, 'd', i[0], i[1], r))
    yield from comb('SignedMul', 2, lambda s, i, r: SignedMul(s, 'd', i[0], i[1], r))
    yield from comb('AddCarryIn', 3, lambda s, i, r: AddCarryIn(s, 'd', i[0], i[1], r, i[2]))
    yield from comb('Latch', 2, lambda s, i, r: Latch(s, 'd', i[0], r, i[1]))
    yield from comb('ConcatenateLSBF', 2, lambda s, i, r: ConcatenateLSBF(s, 'd', i, r))
    yield from comb('ConcatenateMSBF', 2, lambda s, i, r: ConcatenateMSBF(s, 'd', i, r))
    for n in (0, 1, 3, 6):
        yield from comb('ShiftLeftConstant n%d' % n, 1, lambda s, i, r, n=n: ShiftLeftConstant(s, 'd', i[0], n, r))
        yield from comb('ShiftRightConstant n%d' % n, 1, lambda s, i, r, n=n: ShiftRightConstant(s, 'd', i[0], n, r))
    for hi, lo in ((0, 0), (2, 0), (2, 1), (3, 3)):
        yield from comb('Range %d:%d' % (hi, lo), 1, lambda s, i, r, hi=hi, lo=lo: Range(s, 'd', i[0], hi, lo, r))
    for w in ws:
        for dw in ws:
            for ew in (1, 2):
                def build(s, w=w, dw=dw, ew=ew):
                    d, q, e, r = W(s, 'd', dw), W(s, 'q', w), W(s, 'e', ew), W(s, 'rst', 1)
                    leaf = Reg(s, 'reg', d, q, enable=e, reset=r, reset_value=(1 << w) + 1)
                    return {'ins': {'d': d, 'e': e, 'rst': r}, 'regs': {'reg': leaf}}
                yield 'mixed Reg d%d q%d e%d oversized reset value' % (dw, w, ew), {'kind': 'seq', 'build': build}


def all_cfgs(tier):
    quick = tier == 'quick'
    for name, cfg in c07.cfgs(tier):
        if quick and zlib.crc32(name.encode()) % 3 and not any(k in name for k in ('Not', 'Neg', 'Sub ', 'Mul', 'ShiftLeft', 'SignExtend', 'Add a')):
            continue
        yield 'C07/' + name, dict(cfg, kind='comb')
    for name, cfg in c08.cfgs(tier):
        if quick and zlib.crc32(name.encode()) % 3 and not any(k in name for k in ('Not', 'Repeat', 'Nor', 'Nand', 'Concat')):
            continue
        yield 'C08/' + name, dict(cfg, kind='comb')
    for name, cfg in c09.cfgs(tier):
        c = dict(cfg, kind='seq')
        c.pop('assume', None)
        yield 'C09/' + name, c
    for name, cfg in extra_cfgs(tier):
        yield name, cfg
    for name, cfg in mixed_width_cfgs(tier):
        yield name, cfg


def main(argv=None):
    args = common.parse_args(PROP, argv)
    tasks = [(name, range_task, cfg) for name, cfg in all_cfgs(args.tier)]
    return common.run_check(
        PROP, 'model_checking', tasks, args, design_ref='DESIGN.md section 3 (C06)',
        technique='symbolic execution of the real simulator; per observation point one QF_BV query "some wire value is outside [0,2**width)" over exact unbounded integer terms',
        assumptions=['register/memory pre-state in range (inductive hypothesis); inputs poked through Wire.put as the tests do',
                     'divisors non-zero where the block grid assumes it (otherwise random.randint is reached)',
                     'RandomValue: numpy.random.normal is stubbed by an arbitrary integer-valued draw per call (any sign, 4 bits wider than the wire) and the builtin int of py4hw.logic.simulation by a shim that keeps symbolic integers symbolic'],
        bounds={'designs': 'the C07/C08/C09 configuration grids (quick: a 1/3 sample of the pure combinational ones plus all mask-relying primitives) and symbolic any-sign constants, stimulus and reset values',
                'cycles': 'power-up + 2 clock calls from a symbolic state (1-step induction)', 'outside': 'BidirWire, FieldInspector'},
        trusted_base=['z3', 'symx operator semantics'],
        replay_fn=None)


if __name__ == '__main__':
    sys.exit(main())
