"""
Generic harness for combinational blocks (C07, C08, C13, C14): the real block is built,
its propagate() methods run on fresh symbols through the real Simulator, and every output
term is compared with a reference written directly on z3 terms.
"""
import contextlib
import io
import os
import sys

import z3

from . import common
from symx import core, symsim
from symx.core import ctx, SymbolicPathError, Unsupported

import py4hw


@contextlib.contextmanager
def quiet():
    """py4hw prints from some constructors; keep worker output clean"""
    old = sys.stdout
    sys.stdout = io.StringIO()
    try:
        yield
    finally:
        sys.stdout = old


def zx(t, n):
    w = t.size()
    if w == n:
        return t
    if w < n:
        return z3.ZeroExt(n - w, t)
    return z3.Extract(n - 1, 0, t)


def sx(t, n):
    w = t.size()
    if w == n:
        return t
    if w < n:
        return z3.SignExt(n - w, t)
    return z3.Extract(n - 1, 0, t)


def concrete(term, in_vars, values):
    sub = [(v, z3.BitVecVal(values[n], v.size())) for n, v in in_vars.items()]
    t = z3.simplify(z3.substitute(term, *sub))
    if z3.is_bv_value(t):
        return t.as_long()
    if z3.is_true(t):
        return 1
    if z3.is_false(t):
        return 0
    raise common.HarnessError('oracle term not closed: %s' % t)


def build_concrete(build, values):
    """fresh, unwrapped circuit driven with concrete ints through the real simulator"""
    with quiet():
        s = py4hw.HWSystem()
        ins, outs = build(s)
        for n, w in ins.items():
            w.put(values[n])
        inw = set(id(w) for w in ins.values())
        for w in symsim.all_wires(s):
            k = 'pre:' + w.getFullPath()
            if id(w) not in inw and k in values:
                w.value = values[k] & ((1 << w.getWidth()) - 1)      # whatever an earlier evaluation left on the wire
        s.getSimulator()
    return {n: w.get() for n, w in outs.items()}


def build_concrete2(build, values):
    """like build_concrete, then a SECOND evaluation of the same instance with the inputs named <n>#2"""
    with quiet():
        s = py4hw.HWSystem()
        ins, outs = build(s)
        for n, w in ins.items():
            w.put(values[n])
        inw = set(id(w) for w in ins.values())
        for w in symsim.all_wires(s):
            k = 'pre:' + w.getFullPath()
            if id(w) not in inw and k in values:
                w.value = values[k] & ((1 << w.getWidth()) - 1)
        sim = s.getSimulator()
        for n, w in ins.items():
            w.put(values[n + '#2'])
        sim.propagateAll()
    return {n: w.get() for n, w in outs.items()}


def comb_task(p, cfg, rec):
    """cfg: {'build': f(sys)->(ins,outs), 'spec': f(V)->{out: z3 BV}, 'assume': f(V)->z3 Bool (optional)}"""
    build = cfg['build']
    with quiet():
        s = py4hw.HWSystem()
        try:
            ins, outs = build(s)
        except (AssertionError, Exception) as e:
            if isinstance(e, (Unsupported,)):
                raise
            p.res['refused'] += 1
            p.note('%s: constructor refused: %r' % (p.config, e))
            return
    symsim.instrument(s, rec)
    wv = symsim.poke_fresh(list(ins.values()))
    V = {n: wv[w] for n, w in ins.items()}
    if cfg.get('assume'):
        p.assume(cfg['assume'](V))
    spec = cfg['spec'](V)
    # every other wire starts with arbitrary content: a stateless block must overwrite all of its outputs on every
    # evaluation (values left by an earlier evaluation must not show through)
    P = {}
    inw = set(id(w) for w in ins.values())
    for w in symsim.all_wires(s):
        if id(w) in inw or w.name == 'clk':
            continue
        x, xv = core.fresh('pre_%d' % len(P), w.getWidth())
        w.value = x
        P['pre:' + w.getFullPath()] = xv
    VP = dict(V)
    VP.update(P)

    def mk_replay(oname, rw, exc_mode=False):
        def replay(values):
            try:
                got = build_concrete(build, values)
            except Exception as e:
                return {'exception': repr(e)}
            if exc_mode:
                return None
            exp = concrete(spec[oname], V, values)
            if got[oname] == exp:
                return None
            return {'output': oname, 'got': got[oname], 'expected': exp}
        return replay

    try:
        with quiet():
            sim = s.getSimulator()
    except SymbolicPathError as e:
        # the real block raises for some input inside the stated domain
        p.prove('simulates-without-exception', z3.And(*e.pc) if e.pc else z3.BoolVal(True), inputs=VP,
                replay=mk_replay(None, 0, True), quantities=cfg.get('quantities', lambda V: {})(V))
        return
    p.res['states'] += 1
    terms = {}
    for oname, w in outs.items():
        rw = w.getWidth()
        v = w.get()
        terms[oname] = v
        o = spec[oname]
        if o.size() != rw:
            raise common.HarnessError('spec width %d != wire width %d for %s' % (o.size(), rw, oname))
        got = core.to_term(v, rw + 1)
        lo, hi = core._bounds(v)
        inrange = lo >= 0 and hi < (1 << rw)
        viol = got != z3.ZeroExt(1, o)
        if not inrange:
            viol = z3.Or(viol, core.as_z3_bool(v < 0), core.as_z3_bool(v >= (1 << rw)))
        q = cfg.get('quantities', lambda V: {})(V)
        p.prove(oname, viol, inputs=VP, replay=mk_replay(oname, rw), quantities=q,
                canary=(got != z3.ZeroExt(1, o ^ 1)))
        p.res['transitions'] += 1
    p.validate_terms(terms, V, lambda values: build_concrete(build, values), n=2)
    if cfg.get('reeval', True):
        # second evaluation of the SAME instance with fresh inputs: a stateless block's outputs depend on its current inputs only,
        # whatever it was given before (operand caches, remembered results, counters must not show through)
        wv2 = symsim.poke_fresh(list(ins.values()), 'second_')
        V2 = {n: wv2[w] for n, w in ins.items()}
        if cfg.get('assume'):
            p.assume(cfg['assume'](V2))
        spec2 = cfg['spec'](V2)
        VP2 = dict(VP)
        VP2.update({n + '#2': v for n, v in V2.items()})

        def mk_replay2(oname):
            def replay(values):
                try:
                    got = build_concrete2(build, values)
                except Exception as e:
                    return {'exception': repr(e)}
                exp = concrete(spec2[oname], V2, {n: values[n + '#2'] for n in V2})
                if got[oname] == exp:
                    return None
                return {'output': oname, 'second evaluation': True, 'got': got[oname], 'expected': exp}
            return replay
        try:
            with quiet():
                sim.propagateAll()
        except SymbolicPathError as e:
            p.prove('second evaluation: simulates-without-exception', z3.And(*e.pc) if e.pc else z3.BoolVal(True), inputs=VP2,
                    replay=lambda values: (lambda r: None if not (r and 'exception' in r) else r)(mk_replay2(next(iter(outs)))(values)))
            return
        for oname, w in outs.items():
            rw = w.getWidth()
            v = w.get()
            got = core.to_term(v, rw + 1)
            lo, hi = core._bounds(v)
            viol = got != z3.ZeroExt(1, spec2[oname])
            if not (lo >= 0 and hi < (1 << rw)):
                viol = z3.Or(viol, core.as_z3_bool(v < 0), core.as_z3_bool(v >= (1 << rw)))
            p.prove('%s after a second evaluation of the same instance with other inputs' % oname, viol, inputs=VP2, replay=mk_replay2(oname),
                    quantities=cfg.get('quantities', lambda V: {})(V2))
            p.res['transitions'] += 1
