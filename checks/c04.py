"""
C04 -- combinational settling is complete and independent of construction order; cycles refused.

For each netlist and each instantiation order: symbolic inputs / register contents, the real
topologicalSort + propagateAll + clk; then for EVERY propagatable leaf the real propagate() is
re-executed symbolically on the current wire terms and the solver proves the outputs already
hold that value (fixpoint), and every wire term is proved equal to the one obtained under the
canonical order (uniqueness / order independence).  Statelessness of a leaf is decided by
running its propagate() from arbitrary previous outputs.  The rejection clause (cyclic
netlists raise, the same loops cut by a register are accepted) has no data and is executed
concretely for every order.
"""
import itertools
import random
import sys

import z3

from . import common
from .comb import quiet
from . import designs as D
from symx import core, symsim
from symx.core import ctx

import py4hw
from py4hw.base import Logic, Wire
from py4hw.logic.bitwise import Not, Buf, And2, Or2, BitsLSBF, ConcatenateLSBF, Mux2, Constant
from py4hw.logic.storage import Reg, Latch
from py4hw.logic.arithmetic import AddCarryIn, Sub

PROP = 'C04'

# netlists: (wire specs, leaf specs).  leaf spec = (name, constructor(s, W))

NETS = {}


def net(name, wires, leaves, ins):
    NETS[name] = (wires, leaves, ins)


net('chain4', {'a': 3, 'b': 3, 'c': 3, 'd': 3, 'e': 3},
    [('n1', lambda s, W: Not(s, 'n1', W['a'], W['b'])),
     ('n2', lambda s, W: Not(s, 'n2', W['b'], W['c'])),
     ('b3', lambda s, W: Buf(s, 'b3', W['c'], W['d'])),
     ('n4', lambda s, W: Not(s, 'n4', W['d'], W['e']))], ['a'])

net('diamond', {'a': 2, 'x': 2, 'y': 2, 'z': 2, 'o': 2},
    [('n1', lambda s, W: Not(s, 'n1', W['a'], W['x'])),
     ('b1', lambda s, W: Buf(s, 'b1', W['a'], W['y'])),
     ('and', lambda s, W: And2(s, 'and', W['x'], W['y'], W['z'])),
     ('or', lambda s, W: Or2(s, 'or', W['z'], W['a'], W['o']))], ['a'])

net('fanout', {'a': 2, 'b': 2, 'x': 2, 'y1': 2, 'y2': 2, 'z': 2, 'o': 2},
    [('src', lambda s, W: And2(s, 'src', W['a'], W['b'], W['x'])),
     ('s1', lambda s, W: Buf(s, 's1', W['x'], W['y1'])),
     ('s2', lambda s, W: Not(s, 's2', W['x'], W['y2'])),
     ('j', lambda s, W: Or2(s, 'j', W['y1'], W['y2'], W['z'])),
     ('k', lambda s, W: And2(s, 'k', W['z'], W['x'], W['o']))], ['a', 'b'])

net('multiout', {'a': 3, 'b0': 1, 'b1': 1, 'b2': 1, 'c': 1, 'd': 1, 'e': 2},
    [('bits', lambda s, W: BitsLSBF(s, 'bits', W['a'], [W['b0'], W['b1'], W['b2']])),
     ('and', lambda s, W: And2(s, 'and', W['b0'], W['b1'], W['c'])),
     ('or', lambda s, W: Or2(s, 'or', W['c'], W['b2'], W['d'])),
     ('cat', lambda s, W: ConcatenateLSBF(s, 'cat', [W['d'], W['b0']], W['e']))], ['a'])

net('reconverge', {'a': 2, 'n1': 2, 'n2': 2, 'n3': 2, 'm': 2, 'o': 2, 'p': 2},
    [('i1', lambda s, W: Not(s, 'i1', W['a'], W['n1'])),
     ('i2', lambda s, W: Not(s, 'i2', W['n1'], W['n2'])),
     ('i3', lambda s, W: Not(s, 'i3', W['n2'], W['n3'])),
     ('bm', lambda s, W: Buf(s, 'bm', W['a'], W['m'])),
     ('j', lambda s, W: And2(s, 'j', W['n3'], W['m'], W['o'])),
     ('k', lambda s, W: Or2(s, 'k', W['o'], W['n1'], W['p']))], ['a'])

net('accumulator', {'a': 3, 'na': 3, 'q': 3, 'd': 3, 'ci': 1, 'o': 3},
    [('inv', lambda s, W: Not(s, 'inv', W['a'], W['na'])),
     ('k0', lambda s, W: Constant(s, 'k0', 0, W['ci'])),
     ('add', lambda s, W: AddCarryIn(s, 'add', W['q'], W['na'], W['d'], W['ci'])),
     ('reg', lambda s, W: Reg(s, 'reg', W['d'], W['q'])),
     ('out', lambda s, W: Not(s, 'out', W['q'], W['o']))], ['a'])

net('mux-reg', {'a': 2, 'sel': 1, 'q': 2, 'nq': 2, 'd': 2, 'o': 2},
    [('nq', lambda s, W: Not(s, 'nq', W['q'], W['nq'])),
     ('mux', lambda s, W: Mux2(s, 'mux', W['sel'], W['nq'], W['a'], W['d'])),
     ('reg', lambda s, W: Reg(s, 'reg', W['d'], W['q'])),
     ('sub', lambda s, W: Sub(s, 'sub', W['d'], W['q'], W['o']))], ['a', 'sel'])


# a shared (bidirectional) net between stateless blocks, driven through an ordinary out port and read through ordinary in ports
net('shared-net', {'a': 2, 'bus': ('bidir', 2), 'r': 2, 'o': 2, 'p': 2},
    [('drv', lambda s, W: Buf(s, 'drv', W['a'], W['bus'])),
     ('rd', lambda s, W: Not(s, 'rd', W['bus'], W['r'])),
     ('j', lambda s, W: And2(s, 'j', W['r'], W['a'], W['o'])),
     ('k', lambda s, W: Or2(s, 'k', W['bus'], W['o'], W['p']))], ['a'])

net('shared-net after a register', {'a': 2, 'q': 2, 'bus': ('bidir', 2), 'r': 2, 'o': 2},
    [('reg', lambda s, W: Reg(s, 'reg', W['a'], W['q'])),
     ('drv', lambda s, W: Not(s, 'drv', W['q'], W['bus'])),
     ('rd', lambda s, W: Buf(s, 'rd', W['bus'], W['r'])),
     ('j', lambda s, W: And2(s, 'j', W['r'], W['a'], W['o']))], ['a'])


def _bits_detached(s, W):
    """a multi-output leaf whose FIRST output was detached again (py4hw.base.disconnectWireFromLogicObject): its later outputs still
    have readers that must be ordered after it"""
    from py4hw.base import disconnectWireFromLogicObject
    leaf = BitsLSBF(s, 'bits', W['a'], [W['b0'], W['b1'], W['b2']])
    disconnectWireFromLogicObject(W['b0'], leaf)
    return leaf


net('detached first output', {'a': 3, 'b0': 1, 'b1': 1, 'b2': 1, 'r': 1, 'o': 1},
    [('bits', _bits_detached),
     ('inv', lambda s, W: Not(s, 'inv', W['b1'], W['r'])),
     ('and', lambda s, W: And2(s, 'and', W['r'], W['b2'], W['o']))], ['a'])


class _Hs(py4hw.Interface):
    """handshake interface built over wires of the netlist: data source->sink, ready sink->source (the back channel)"""
    def __init__(self, parent, W):
        super().__init__(parent, 'port')
        self.sourceToSink.append(['data', W['data']])
        self.sinkToSource.append(['ready', W['ready']])


class _HsSink(py4hw.Logic):
    """stateless sink: ready = data is odd, driven back over the sink-to-source wire"""
    def __init__(self, parent, name, W):
        super().__init__(parent, name)
        self.addInterfaceSink('trg', _Hs(parent, W))
        self.data, self.ready = W['data'], W['ready']

    def propagate(self):
        self.ready.put(self.data.get() & 1)


net('interface back channel', {'a': 3, 'data': 3, 'ready': 1, 'busy': 1, 'o': 1},
    [('source', lambda s, W: Not(s, 'source', W['a'], W['data'])),          # a plain driver of the data wire (the source end reads ready)
     ('sink', lambda s, W: _HsSink(s, 'sink', W)),
     ('busy', lambda s, W: Not(s, 'busy', W['ready'], W['busy'])),
     ('o', lambda s, W: And2(s, 'o', W['busy'], W['ready'], W['o']))], ['a'])


class TracedXor(py4hw.Logic):
    """a stateless gate that also has a clock() hook (statistics only): both propagatable and clockable"""
    def __init__(self, parent, name, a, b, r):
        super().__init__(parent, name)
        self.a = self.addIn('a', a)
        self.b = self.addIn('b', b)
        self.r = self.addOut('r', r)
        self.edges = 0

    def propagate(self):
        self.r.put(self.a.get() ^ self.b.get())

    def clock(self):
        self.edges = (self.edges + 1) & 255


net('traced-gate', {'a': 2, 'q': 2, 'x': 2, 'y': 2, 'o': 2, 'd': 2},
    [('n1', lambda s, W: Not(s, 'n1', W['q'], W['x'])),
     ('tx', lambda s, W: TracedXor(s, 'tx', W['x'], W['a'], W['y'])),
     ('n2', lambda s, W: Not(s, 'n2', W['y'], W['o'])),
     ('b1', lambda s, W: Buf(s, 'b1', W['y'], W['d'])),
     ('reg', lambda s, W: Reg(s, 'reg', W['d'], W['q']))], ['a'])


def _same_name_classes():
    """two DIFFERENT Logic subclasses that share their __name__: a structural one (children, no propagate) and a
    behavioural leaf (propagate)"""
    def s_init(self, parent, name, a, r):
        py4hw.Logic.__init__(self, parent, name)
        self.addIn('a', a)
        self.addOut('r', r)
        Not(self, 'inner', a, r)
    S = type('Inc', (py4hw.Logic,), {'__init__': s_init})

    def b_init(self, parent, name, a, r):
        py4hw.Logic.__init__(self, parent, name)
        self.a = self.addIn('a', a)
        self.r = self.addOut('r', r)

    def b_prop(self):
        self.r.put(self.a.get() + 1)
    B = type('Inc', (py4hw.Logic,), {'__init__': b_init, 'propagate': b_prop})
    return S, B


_IncS, _IncB = _same_name_classes()

net('same-name-classes', {'a': 2, 'x': 2, 'y': 2, 'z': 2, 'o': 2},
    [('s', lambda s, W: _IncS(s, 's', W['a'], W['x'])),
     ('b', lambda s, W: _IncB(s, 'b', W['x'], W['y'])),
     ('n', lambda s, W: Not(s, 'n', W['y'], W['z'])),
     ('b2', lambda s, W: _IncB(s, 'b2', W['z'], W['o']))], ['a'])


def random_net(seed):
    """seeded acyclic netlist of 4..6 leaves over 2-bit wires (feedback only through a Reg)"""
    rnd = random.Random('net/%d' % seed)
    n = rnd.randint(4, 6)
    wires = {'a': 2, 'b': 2}
    ins = ['a', 'b']
    avail = ['a', 'b']
    leaves = []
    has_reg = rnd.random() < 0.5
    if has_reg:
        wires['q'] = 2
        avail.append('q')
    for k in range(n - (1 if has_reg else 0)):
        o = 'w%d' % k
        wires[o] = 2
        kind = rnd.choice(['not', 'buf', 'and', 'or', 'sub', 'mux'])
        x, y = rnd.choice(avail), rnd.choice(avail)
        nm = 'l%d' % k
        if kind == 'not':
            leaves.append((nm, lambda s, W, nm=nm, x=x, o=o: Not(s, nm, W[x], W[o])))
        elif kind == 'buf':
            leaves.append((nm, lambda s, W, nm=nm, x=x, o=o: Buf(s, nm, W[x], W[o])))
        elif kind == 'and':
            leaves.append((nm, lambda s, W, nm=nm, x=x, y=y, o=o: And2(s, nm, W[x], W[y], W[o])))
        elif kind == 'or':
            leaves.append((nm, lambda s, W, nm=nm, x=x, y=y, o=o: Or2(s, nm, W[x], W[y], W[o])))
        elif kind == 'sub':
            leaves.append((nm, lambda s, W, nm=nm, x=x, y=y, o=o: Sub(s, nm, W[x], W[y], W[o])))
        else:
            z = rnd.choice(avail)
            leaves.append((nm, lambda s, W, nm=nm, x=x, y=y, z=z, o=o: Mux2(s, nm, W[z], W[x], W[y], W[o])))
        avail.append(o)
    if has_reg:
        d = rnd.choice([w for w in avail if w.startswith('w')])
        leaves.append(('reg', lambda s, W, d=d: Reg(s, 'reg', W[d], W['q'])))
    rnd.shuffle(leaves)
    return wires, leaves, ins


def own_leaves(obj):
    """the leaves of the hierarchy by a walk of our own (the oracle must not share Logic.allLeaves with the simulator)"""
    out = []
    for c in obj.children.values():
        if c.children:
            out.extend(own_leaves(c))
        else:
            out.append(c)
    return out


def build_net(name, order, late=0, nest=False):
    """instantiate leaves in the given order; the last `late` leaves are added after getSimulator().
    nest: the leaves live two levels down, inside structural containers, instead of directly under the system"""
    wires, leaves, ins = NETS[name]
    s = py4hw.HWSystem()
    W = {n: (s.bidir_wire(n, w[1]) if isinstance(w, tuple) else s.wire(n, w)) for n, w in wires.items()}
    parent = py4hw.Logic(py4hw.Logic(s, 'unit'), 'stage') if nest else s
    first = order[:len(order) - late] if late else order
    for i in first:
        leaves[i][1](parent, W)
    return s, W, [(leaves[i][0], (lambda s_, W_, c=leaves[i][1]: c(parent, W_))) for i in order[len(first):]], ins


def run_net(name, order, late=0, values=None, rec=None, nest=False):
    with quiet():
        s, W, rest, ins = build_net(name, order, late, nest)
    vars_ = {}

    def poke(tag):
        for n in ins:
            if values is None:
                x, v = core.fresh(tag + n, W[n].getWidth())
                vars_[tag + n] = v
                W[n].put(x)
            else:
                W[n].put(values.get(tag + n, 0))
    if values is None:
        symsim.instrument(s, rec)
    poke('p0_')
    snaps = []
    with quiet():
        sim = s.getSimulator()
        if late:
            for nme, ctor in rest:
                ctor(s, W)
            if values is None:
                symsim.instrument(s, rec)
            sim = s.getSimulator()
        else:
            snaps.append(('after getSimulator()', {n: w.value for n, w in W.items()}, s, sim))
        # registers: arbitrary content
        for leaf in symsim.sequential_leaves(s):
            if isinstance(leaf, Reg):
                if values is None:
                    x, v = core.fresh('s_' + leaf.name, leaf.q.getWidth())
                    vars_['s_' + leaf.name] = v
                else:
                    x = values.get('s_' + leaf.name, 0)
                leaf.value = x
                leaf.q.value = x
        for k in (1, 2):
            poke('p%d_' % k)
            sim.clk(1)
            snaps.append(('after clk #%d' % k, {n: w.value for n, w in W.items()}, s, sim))
    return snaps, vars_


def fixpoint_conds(s):
    """re-execute every stateless propagate() on the current wire values; returns list of
    (leaf path, z3 cond 'some output differs from the recomputed value')"""
    conds = []
    for leaf in own_leaves(s):
        if not callable(getattr(type(leaf), 'propagate', None)):       # own classification, not Logic.isPropagatable
            continue
        if isinstance(leaf, (Latch,)) or type(leaf).__name__ == 'AsynchronousMemory':
            continue
        outs = [p.wire for p in leaf.outPorts if p.wire is not None]       # (a detached out port has no wire)
        old = [w.value for w in outs]
        with quiet():
            leaf.propagate()
        new = [w.value for w in outs]
        for w, o in zip(outs, old):
            w.value = o
        for w, o, n in zip(outs, old, new):
            c = D.differ(o, n)
            if c is not False:
                conds.append((leaf.getFullPath(), z3.BoolVal(True) if c is True else c))
    return conds


def order_task(p, cfg, rec):
    name, order, late = cfg['net'], cfg['order'], cfg.get('late', 0)
    nest = cfg.get('nest', False)
    n = len(NETS[name][1])
    sym_failed = None
    try:
        base, vars_ = run_net(name, list(range(n)), 0, rec=rec)
        snaps, v2 = run_net(name, order, late, rec=rec, nest=nest)
        vars_.update(v2)
        bmap = {lab: vals for lab, vals, _s, _sim in base}
    except (core.SymbolicPathError, core.Unsupported) as e:
        sym_failed = e

    def concrete_fix(values):
        sn, _ = run_net(name, order, late, values=values, nest=nest)
        for lab, vals, s, sim in sn:
            for leaf in own_leaves(s):
                if callable(getattr(type(leaf), 'propagate', None)) and not isinstance(leaf, Latch):
                    outs = [q.wire for q in leaf.outPorts]
                    old = [w.value for w in outs]
                    leaf.propagate()
                    new = [w.value for w in outs]
                    for w, o in zip(outs, old):
                        w.value = o
                    if old != new:
                        return {'point': lab, 'leaf': leaf.getFullPath(), 'holds': old, 'recomputed': new, 'order': order}
        return None

    def concrete_cmp(values):
        a, _ = run_net(name, list(range(n)), 0, values=values)
        b, _ = run_net(name, order, late, values=values, nest=nest)
        am = {lab: vals for lab, vals, _s, _sim in a}
        for lab, vals, _s, _sim in b:
            for k in vals:
                if lab in am and vals[k] != am[lab][k]:
                    return {'point': lab, 'wire': k, 'this_order': vals[k], 'canonical_order': am[lab][k], 'order': order}
        return None
    if sym_failed is not None:
        # the symbolic run could not be set up (e.g. a leaf writes a wire the library registered as one of its inputs): the two
        # clauses are then executed concretely over a seeded set of input vectors (fixpoint by recomputation, canonical order)
        import random as _r
        rnd = _r.Random(name + str(order))
        ins = NETS[name][2]
        W0 = NETS[name][0]
        bad = None
        tried = 0
        for k in range(16):
            values = {}
            for tag in ('p0_', 'p1_', 'p2_'):
                for nme in ins:
                    w_ = W0[nme][1] if isinstance(W0[nme], tuple) else W0[nme]
                    values[tag + nme] = rnd.getrandbits(w_) if k else (1 << w_) - 1
            for leafname, _ in NETS[name][1]:
                values['s_' + leafname] = rnd.getrandbits(3)
            tried += 1
            try:
                bad = concrete_fix(values) or concrete_cmp(values)
            except Exception as ex:
                bad = {'exception': repr(ex)}
            if bad:
                bad['inputs'] = values
                break
        p.structural('symbolic run not possible (%s): fixpoint and canonical-order clauses hold on %d concrete input sequences' % (str(sym_failed)[:80], tried),
                     bad is None, detail=bad)
        return
    for lab, vals, s, sim in snaps:
        p.res['states'] += 1
        fc = fixpoint_conds(s)
        p.prove('%s: every stateless leaf output equals its recomputation (%d leaves)' % (lab, len([l for l in s.allLeaves() if l.isPropagatable()])),
                z3.Or(*[c for _, c in fc]) if fc else z3.BoolVal(False), inputs=vars_, replay=concrete_fix)
        if lab in bmap:
            cs = []
            for k in vals:
                c = D.differ(vals[k], bmap[lab][k])
                if c is not False:
                    cs.append(z3.BoolVal(True) if c is True else c)
            p.prove('%s: wire values equal those of the canonical order' % lab, z3.Or(*cs) if cs else z3.BoolVal(False),
                    inputs=vars_, replay=concrete_cmp)
        p.res['transitions'] += 1


# ---------------------------------------------------------------------------------------------------
# library blocks with recursively shuffled children

def shuffle_children(obj, rnd):
    items = list(obj.children.items())
    rnd.shuffle(items)
    obj.children = dict(items)
    for c in obj.children.values():
        shuffle_children(c, rnd)


def lib_blocks():
    from py4hw.logic.arithmetic import Add, ShiftRight, CountLeadingZeros, SignedDiv, Abs
    from py4hw.logic.relational import Comparator
    from py4hw.logic.bitwise import Mux
    from py4hw.logic.arithmetic_fp import FPAdder_SP
    B = {}

    def add(s):
        a, b, r, co = s.wire('a', 4), s.wire('b', 4), s.wire('r', 4), s.wire('co', 1)
        Add(s, 'dut', a, b, r, co=co)
        return [a, b]
    B['Add4+co'] = add

    def shr(s):
        a, b, r = s.wire('a', 6), s.wire('b', 2), s.wire('r', 6)
        ShiftRight(s, 'dut', a, b, r, arithmetic=True)
        return [a, b]
    B['ShiftRight6 arithmetic'] = shr

    def clz(s):
        a, r, z = s.wire('a', 8), s.wire('r', 4), s.wire('z', 1)
        CountLeadingZeros(s, 'dut', a, r, z)
        return [a]
    B['CountLeadingZeros8'] = clz

    def cmp_(s):
        a, b = s.wire('a', 4), s.wire('b', 4)
        Comparator(s, 'dut', a, b, s.wire('gt'), s.wire('eq'), s.wire('lt'))
        return [a, b]
    B['Comparator4'] = cmp_

    def mux(s):
        sel = s.wire('sel', 2)
        ins = [s.wire('i%d' % k, 3) for k in range(4)]
        Mux(s, 'dut', sel, ins, s.wire('r', 3))
        return [sel] + ins
    B['Mux4x3'] = mux

    def sdiv(s):
        a, b, r = s.wire('a', 4), s.wire('b', 4), s.wire('r', 4)
        SignedDiv(s, 'dut', a, b, r)
        return [a, b]
    B['SignedDiv4'] = sdiv

    def fpa(s):
        a, b, r = s.wire('a', 32), s.wire('b', 32), s.wire('r', 32)
        FPAdder_SP(s, 'dut', a, b, r)
        return [a, b]
    B['FPAdder_SP'] = fpa
    return B


def lib_run(bname, seed, values=None, rec=None):
    build = lib_blocks()[bname]
    with quiet():
        s = py4hw.HWSystem()
        ins = build(s)
        if seed is not None:
            shuffle_children(s, random.Random(seed))
    vars_ = {}
    for w in ins:
        if values is None:
            x, v = core.fresh('i_' + w.name, w.getWidth())
            vars_['i_' + w.name] = v
            w.put(x)
        else:
            w.put(values.get('i_' + w.name, 0))
    if values is None:
        symsim.instrument(s, rec)
    with quiet():
        s.getSimulator()
    return s, vars_


def lib_task(p, cfg, rec):
    bname, seed = cfg['block'], cfg['seed']
    ctx.simplify_merge = bname != 'FPAdder_SP'
    if bname == 'SignedDiv4':
        pass
    s0, vars_ = lib_run(bname, None, rec=rec)
    s1, v1 = lib_run(bname, seed, rec=rec)
    if bname == 'SignedDiv4':
        p.assume(vars_['i_b'] != 0)
    base = {w.getFullPath(): w.value for w in symsim.all_wires(s0)}
    p.res['states'] += 1

    def concrete_cmp(values):
        a, _ = lib_run(bname, None, values=values)
        b, _ = lib_run(bname, seed, values=values)
        am = {w.getFullPath(): w.value for w in symsim.all_wires(a)}
        for w in symsim.all_wires(b):
            if am[w.getFullPath()] != w.value:
                return {'wire': w.getFullPath(), 'shuffled': w.value, 'canonical': am[w.getFullPath()], 'seed': seed}
        return None
    fc = fixpoint_conds(s1)
    p.prove('after getSimulator(): every stateless leaf output equals its recomputation (%d leaves)' % len(s1.allLeaves()),
            z3.Or(*[c for _, c in fc]) if fc else z3.BoolVal(False), inputs=vars_, replay=concrete_cmp)
    cs = []
    for w in symsim.all_wires(s1):
        c = D.differ(w.value, base[w.getFullPath()])
        if c is not False:
            cs.append(z3.BoolVal(True) if c is True else c)
    p.prove('wire values equal those of the canonical child order', z3.Or(*cs) if cs else z3.BoolVal(False), inputs=vars_,
            replay=concrete_cmp)


# ---------------------------------------------------------------------------------------------------
# statelessness of leaf classes, decided by the solver

def stateless_task(p, cfg, rec):
    """propagate() from arbitrary previous outputs: outputs must not depend on them and the
    leaf's attributes must stay unchanged"""
    mk = cfg['mk']
    expect = cfg['stateless']
    with quiet():
        s = py4hw.HWSystem()
        leaf = mk(s)
    for w in symsim.leaf_wires(leaf):
        w.value = core.fresh('w_' + w.name, w.getWidth())[0]
    symsim.instrument(s, rec)
    outs = [q.wire for q in leaf.outPorts]
    prev1 = [core.fresh('p1_' + w.name, w.getWidth()) for w in outs]
    prev2 = [core.fresh('p2_' + w.name, w.getWidth()) for w in outs]
    attrs0 = {k: v for k, v in leaf.__dict__.items() if isinstance(v, (int, list)) and not isinstance(v, bool)}
    attrs0 = {k: (list(v) if isinstance(v, list) else v) for k, v in attrs0.items()}
    res = []
    for prev in (prev1, prev2):
        for w, (x, v) in zip(outs, prev):
            w.value = x
        for k, v in attrs0.items():
            setattr(leaf, k, list(v) if isinstance(v, list) else v)
        with quiet():
            leaf.propagate()
        res.append(([w.value for w in outs], {k: leaf.__dict__[k] for k in attrs0}))
    cs = []
    for a, b in zip(res[0][0], res[1][0]):
        c = D.differ(a, b)
        if c is not False:
            cs.append(z3.BoolVal(True) if c is True else c)
    changed = False
    for k, v in attrs0.items():
        nv = res[0][1][k]
        if isinstance(v, list):
            changed = changed or any(not core.same_value(x, y) for x, y in zip(v, nv))
        else:
            changed = changed or not core.same_value(v, nv)
    r, m = p.satisfiable([z3.Or(*cs)]) if cs else (z3.unsat, None)
    is_stateless = (r == z3.unsat) and not changed
    p.structural('classification of %s as %s' % (type(leaf).__name__, 'stateless' if expect else 'stateful'),
                 is_stateless == expect, detail={'solver': str(r), 'attributes_changed': changed})


def stateless_cfgs():
    from py4hw.logic.storage import AsynchronousMemory
    return [
        ('Not', lambda s: Not(s, 'x', s.wire('a', 3), s.wire('r', 3)), True),
        ('Mux2', lambda s: Mux2(s, 'x', s.wire('s'), s.wire('a', 3), s.wire('b', 3), s.wire('r', 3)), True),
        ('BitsLSBF', lambda s: BitsLSBF(s, 'x', s.wire('a', 2), [s.wire('b0'), s.wire('b1')]), True),
        ('AddCarryIn', lambda s: AddCarryIn(s, 'x', s.wire('a', 3), s.wire('b', 3), s.wire('r', 3), s.wire('ci')), True),
        ('Latch', lambda s: Latch(s, 'x', s.wire('d', 3), s.wire('q', 3), s.wire('e')), False),
        ('AsynchronousMemory', lambda s: AsynchronousMemory(s, 'x', s.wire('ra', 1), s.wire('wa', 1), s.wire('wr'), s.wire('rd', 2), s.wire('wd', 2)), False),
    ]


# ---------------------------------------------------------------------------------------------------
# rejection clause (concrete): cyclic netlists raise, register-cut loops are accepted

def cyc_nets():
    C = {}

    def self_loop(s, cut):
        a, x = s.wire('a', 1), s.wire('x', 1)
        if cut:
            d = s.wire('d', 1)
            And2(s, 'g', a, x, d)
            Reg(s, 'r', d, x)
        else:
            And2(s, 'g', a, x, x)
    C['self-loop'] = self_loop

    def two(s, cut):
        a, x, y = s.wire('a', 1), s.wire('x', 1), s.wire('y', 1)
        And2(s, 'g1', a, y, x)
        if cut:
            Reg(s, 'r', x, y)
        else:
            Not(s, 'g2', x, y)
    C['2-cycle'] = two

    def traced_ring(s, cut):
        a, x, y = s.wire('a', 2), s.wire('x', 2), s.wire('y', 2)
        TracedXor(s, 'tx', a, y, x)            # a ring closed through a block that has propagate() and clock()
        if cut:
            Reg(s, 'r', x, y)
        else:
            Not(s, 'g2', x, y)
    C['ring through a gate with a clock() hook'] = traced_ring

    def bidir_ring(s, cut):
        a, x, y = s.wire('a', 2), s.wire('x', 2), s.wire('y', 2)
        bus = s.bidir_wire('bus', 2)
        And2(s, 'g1', a, y, x)
        Not(s, 'drv', x, bus)                  # the ring is closed through a shared (bidirectional) net
        if cut:
            Reg(s, 'r', bus, y)
        else:
            Buf(s, 'rd', bus, y)
    C['ring closed through a bidirectional net'] = bidir_ring

    def traced_self(s, cut):
        a, x = s.wire('a', 2), s.wire('x', 2)
        if cut:
            d = s.wire('d', 2)
            TracedXor(s, 'tx', a, x, d)
            Reg(s, 'r', d, x)
        else:
            TracedXor(s, 'tx', a, x, x)          # a gate with a clock() hook reading its own output
    C['self-loop on a gate with a clock() hook'] = traced_self

    def three(s, cut):
        a, x, y, z = s.wire('a', 1), s.wire('x', 1), s.wire('y', 1), s.wire('z', 1)
        Or2(s, 'g1', a, z, x)
        Not(s, 'g2', x, y)
        if cut:
            Reg(s, 'r', y, z)
        else:
            Buf(s, 'g3', y, z)
    C['3-cycle'] = three

    def hier(s, cut):
        a, x, y = s.wire('a', 1), s.wire('x', 1), s.wire('y', 1)

        def body(b):
            m = b.wire('m', 1)
            Not(b, 'n', x, m)
            if cut:
                Reg(b, 'r', m, y)
            else:
                Buf(b, 'b', m, y)
        D.Box(s, 'box', {'x': x}, {'y': y}, body)
        And2(s, 'g', a, y, x)
    C['cycle through hierarchy'] = hier

    def multi(s, cut):
        a = s.wire('a', 2)
        b0, b1 = s.wire('b0', 1), s.wire('b1', 1)
        n = s.wire('n', 1)
        BitsLSBF(s, 'bits', a, [b0, b1])
        Not(s, 'n', b0, n)
        k = s.wire('k', 1)
        Constant(s, 'k', 1, k)
        if cut:
            q = s.wire('q', 1)
            Reg(s, 'r', n, q)
            ConcatenateLSBF(s, 'cat', [q, k], a)
        else:
            ConcatenateLSBF(s, 'cat', [n, k], a)
    C['cycle through a multi-output leaf'] = multi
    return C


def cyc_task(p, cfg, rec):
    name = cfg['net']
    build = cyc_nets()[name]
    for cut in (False, True):
        for rev in (False, True):
            with quiet():
                s = py4hw.HWSystem()
                build(s, cut)
                if rev:
                    s.children = dict(reversed(list(s.children.items())))
                raised = None
                try:
                    s.getSimulator()
                except Exception as e:
                    raised = e
            if cut:
                p.structural('%s cut by a register is accepted (children %s)' % (name, 'reversed' if rev else 'as built'),
                             raised is None, detail={'exception': repr(raised)})
            else:
                p.structural('%s is refused by getSimulator() (children %s)' % (name, 'reversed' if rev else 'as built'),
                             raised is not None, detail={'simulated': True})


def deep_chain_task(p, cfg, rec):
    """directed replay outside the solver bounds: an acyclic chain deeper than the sorter's pass
    limit, instantiated sink-first"""
    n = cfg['n']
    with quiet():
        s = py4hw.HWSystem()
        ws = [s.wire('w%d' % k, 1) for k in range(n + 1)]
        for k in reversed(range(n)):
            Buf(s, 'b%d' % k, ws[k], ws[k + 1])
        raised = None
        try:
            s.getSimulator()
        except Exception as e:
            raised = e
    p.structural('acyclic %d-deep buffer chain built sink-first is accepted' % n, raised is None,
                 detail={'exception': repr(raised)})


def tasks_for(tier):
    quick = tier == 'quick'
    tasks = []
    rnd = random.Random(11)
    for k in range(4 if quick else 30):
        NETS['random#%d' % k] = random_net(k)
    for name, (wires, leaves, ins) in NETS.items():
        n = len(leaves)
        perms = list(itertools.permutations(range(n)))
        if quick and len(perms) > 130:
            perms = [perms[0], perms[-1]] + rnd.sample(perms[1:-1], 128)
        for perm in perms:
            tasks.append(('net %s order %s' % (name, ''.join(map(str, perm))), order_task, {'net': name, 'order': list(perm)}))
        # late additions: the last 1..2 leaves are instantiated after getSimulator()
        lperms = perms if not quick else perms[:30]
        for perm in lperms[:(len(lperms) if not quick else 30)]:
            for late in (1, 2):
                tasks.append(('net %s order %s late%d' % (name, ''.join(map(str, perm)), late), order_task,
                              {'net': name, 'order': list(perm), 'late': late}))
            # the same with all leaves two levels down inside structural containers (late ones are added there too)
            tasks.append(('net %s order %s nested' % (name, ''.join(map(str, perm))), order_task, {'net': name, 'order': list(perm), 'nest': True}))
            tasks.append(('net %s order %s nested late1' % (name, ''.join(map(str, perm))), order_task,
                          {'net': name, 'order': list(perm), 'late': 1, 'nest': True}))
    for bname in lib_blocks():
        k = (4 if quick else 60) if bname != 'FPAdder_SP' else (2 if quick else 12)
        for seed in range(1, k + 1):
            tasks.append(('lib %s shuffle seed %d' % (bname, seed), lib_task, {'block': bname, 'seed': seed}))
    for nm, mk, st in stateless_cfgs():
        tasks.append(('stateless? %s' % nm, stateless_task, {'mk': mk, 'stateless': st}))
    for nm in cyc_nets():
        tasks.append(('reject %s' % nm, cyc_task, {'net': nm}))
    tasks.append(('deep chain 1100', deep_chain_task, {'n': 1100}))
    tasks.append(('deep chain 900', deep_chain_task, {'n': 900}))
    # a run cancelled from inside an edge (Simulator.stop() in a clock() method): when clk() returns, the netlist must sit at its
    # fixpoint all the same - the post-edge state is compared, wire by wire, with the one of clk(1) (task shared with C05)
    from .c05 import stop_task
    for dname in ('counter-edge-reg', 'reg-fsm-reg', 'reset-chain'):
        tasks.append(('stop() from inside an edge: %s' % dname, stop_task, {'build': D.DESIGNS[dname], 'n': 3}))
    return tasks


def main(argv=None):
    args = common.parse_args(PROP, argv)
    return common.run_check(
        PROP, 'model_checking', tasks_for(args.tier), args, design_ref='DESIGN.md section 3 (C04)',
        technique='symbolic execution of the real topologicalSort/propagateAll/clk on symbolic wires; per leaf a QF_BV fixpoint query and per wire an equality query against the canonical construction order',
        assumptions=['Latch and AsynchronousMemory are stateful by the solver-decided classification and are excluded from the fixpoint clause',
                     'rejection clause and the deep-chain replay carry no data and are executed concretely'],
        bounds={'netlists': sorted(NETS) + ['random#k: seeded acyclic netlists of 4..6 leaves (4 quick / 30 thorough)'], 'orders': 'all n! constructor orders for n <= 5 leaves (quick: 130 seeded of the 720 for n = 6; thorough all), 1-2 late additions',
                'library blocks': 'recursively shuffled children, 4/60 seeds (FPAdder_SP 2/12)', 'cycles': '2 clk() calls after creation'},
        trusted_base=['z3', 'symx operator semantics and fork-and-merge shell'], task_limit=600)


if __name__ == '__main__':
    sys.exit(main())
