"""
C11 -- ill-formed netlists are rejected when they are built or checked.

(a) construction API: from small templates, ONE operation with symbolic selectors (which
    operation, which parent, which name from a pool, which wire) is executed on every feasible
    selector path: it must raise exactly when it would create a second driver / a duplicate child
    name / a duplicate wire name, and after a raise the earlier driver, child and wire are still
    registered.
(b) integrity check: library blocks with every input driven are accepted; with a symbolic fault
    selector s (0 = none, k = input k left undriven) checkIntegrity must raise iff s != 0.
All symbolic data here are small selectors: the solver decides path feasibility, so this is
exhaustive enumeration within the template bounds (stated in DESIGN.md).
"""
import io
import itertools
import sys
import zlib

import z3

from . import common
from .comb import quiet
from . import c07, c08, c09
from symx import core
from symx.core import ctx, run_paths, pc_cond

import py4hw
import py4hw.debug
from py4hw.base import Wire, Logic
from py4hw.logic.bitwise import Buf, Constant, Not, And2
from . import designs as D

PROP = 'C11'
POOL = ['x', 'y', 'z', 'p1', 'b']


def template(kind):
    s = py4hw.HWSystem()
    x, y = s.wire('x', 2), s.wire('y', 2)
    box = D.Box(s, 'b', {}, {}, lambda bx: None)
    bx = box.wire('x', 2)
    p1 = Buf(s, 'p1', x, y)
    extra = {}
    if kind == 'two-level':
        inner = D.Box(box, 'p1', {}, {}, lambda b2: None)
        iy = inner.wire('y', 2)
        extra = {'inner': inner, 'iy': iy}
    return s, box, x, y, bx, p1, extra


def registry_consistent(obj):
    """every registered wire/child is registered under its own name in its own parent"""
    for n, w in obj._wires.items():
        if w.name != n or w.parent is not obj:
            return False
    for n, c in obj.children.items():
        if c.name != n or c.parent is not obj:
            return False
        if not registry_consistent(c):
            return False
    return True


def construct_task(p, cfg, rec):
    kind = cfg['template']
    rec.update(['py4hw.base.Wire.__init__', 'py4hw.base.Logic.__init__', 'py4hw.base.Logic.appendWire', 'py4hw.base.Wire.setSource',
                'py4hw.base.Wire.rename', 'py4hw.base.Wire.reparent', 'py4hw.base.Wire.reparentAndRename', 'py4hw.base.OutPort.__init__'])
    op, opv = core.fresh_range('op', 0, 5)
    par, parv = core.fresh_range('parent', 0, 1)
    nm, nmv = core.fresh_range('name', 0, len(POOL) - 1)
    wsel, wv = core.fresh_range('wire', 0, 1)
    p.assumptions = list(ctx.assumptions)

    def scenario():
        with quiet():
            s, box, x, y, bx, p1, extra = template(kind)
        o = int(op)
        parent = [s, box][int(par)]
        name = POOL[int(nm)]
        w = [x, y][int(wsel)]
        y_src = y.source
        expect = None
        raised = None
        what = ''
        pre_children = {k: dict(o_.children) for k, o_ in (('s', s), ('box', box))}
        pre_wires = {k: dict(o_._wires) for k, o_ in (('s', s), ('box', box))}
        try:
            with quiet():
                if o == 0:
                    what = 'Wire(%s, %r)' % (parent.name, name)
                    expect = name in parent._wires
                    Wire(parent, name, 2)
                elif o == 1:
                    what = 'Buf(%s, %r, x, new)' % (parent.name, name)
                    expect = name in parent.children
                    fresh = s.wire('fresh_target', 2)
                    Buf(parent, name, x, fresh)
                elif o == 2:
                    tgt = [y, None][int(par)]
                    if tgt is None:
                        tgt = s.wire('undriven_target', 2)
                    what = 'Buf(sys, "drv", x, %s)' % tgt.name
                    expect = tgt.source is not None
                    Buf(s, 'drv', x, tgt)
                elif o == 3:
                    what = '%s.rename(%r)' % (w.name, name)
                    expect = (name in s._wires) and (name != w.name)
                    w.rename(name)
                elif o == 4:
                    what = '%s.reparent(box)' % w.name
                    expect = w.name in box._wires
                    w.reparent(box)
                else:
                    what = '%s.reparentAndRename(box, %r)' % (w.name, name)
                    expect = name in box._wires
                    w.reparentAndRename(box, name)
        except Exception as e:
            raised = e
        ok_state = True
        detail = {}
        if raised is not None:
            # the earlier driver / child / wire must still be in place
            if y.source is not y_src:
                ok_state = False
                detail['driver of y'] = 'changed'
            if s.children.get('p1') is not p1 or s.children.get('b') is not box:
                ok_state = False
                detail['children'] = 'changed'
            for k, o_ in (('s', s), ('box', box)):
                for n_, c_ in pre_children[k].items():
                    if o_.children.get(n_) is not c_:
                        ok_state = False
                        detail['child %s of %s' % (n_, k)] = 'no longer registered'
            # the wire that already owned the conflicting name is still registered under it
            if o in (0,) and parent._wires.get(name) is not pre_wires['s' if parent is s else 'box'].get(name):
                ok_state = False
                detail['wire %s' % name] = 'replaced'
            if o == 3 and s._wires.get(name) is not pre_wires['s'].get(name):
                ok_state = False
                detail['wire %s' % name] = 'replaced'
            if o in (4, 5):
                key = w.name if o == 4 else name
                if box._wires.get(key) is not pre_wires['box'].get(key):
                    ok_state = False
                    detail['wire %s of box' % key] = 'replaced'
        if y.source is not y_src and raised is None and not (o == 2 and False):
            ok_state = False
            detail['driver of y'] = 'silently replaced'
        if not registry_consistent(s) and raised is None:
            ok_state = False
            detail['registry'] = 'inconsistent after a successful call'
        return (what, bool(expect), raised is not None, ok_state, detail)
    res = run_paths(scenario)
    p.res['states'] += 1
    p.res['transitions'] += len(res)
    for r in res:
        if r.exc is not None:
            p.structural('scenario completes', False, detail={'exception': repr(r.exc)})
            continue
        what, expect, did_raise, ok_state, detail = r.ret
        p.structural('%s raises exactly when it creates a conflict' % what, expect == did_raise,
                     detail={'operation': what, 'conflict': expect, 'raised': did_raise})
        p.structural('%s leaves the earlier driver/child/wire in place' % what, ok_state, detail=dict(detail, operation=what))


# ---------------------------------------------------------------------------------------------------
def integrity_task(p, cfg, rec):
    build, kind = cfg['build'], cfg['kind']
    rec.update(['py4hw.debug.checkIntegrity', 'py4hw.debug.checkPort'])
    with quiet():
        s0 = py4hw.HWSystem()
        try:
            d0 = build(s0)
        except Exception:
            p.res['refused'] += 1
            return
    ins0 = d0[0] if kind == 'comb' else d0['ins']
    n = len(ins0)
    if n == 0:
        return
    sel, sv = core.fresh_range('fault', 0, n)
    p.assumptions = list(ctx.assumptions)

    def scenario():
        k = int(sel)
        with quiet():
            s = py4hw.HWSystem()
            d = build(s)
            ins = d[0] if kind == 'comb' else d['ins']
            for j, (nme, w) in enumerate(ins.items()):
                if j + 1 == k:
                    continue                       # fault: this input stays undriven
                Constant(s, 'drive_' + nme, 0, w)
            raised = None
            try:
                py4hw.debug.checkIntegrity(s)
            except Exception as e:
                raised = e
        return (k, raised is not None, repr(raised) if raised else None)
    res = run_paths(scenario)
    p.res['states'] += 1
    p.res['transitions'] += len(res)
    for r in res:
        if r.exc is not None:
            p.structural('integrity scenario completes', False, detail={'exception': repr(r.exc)})
            continue
        k, did_raise, msg = r.ret
        if k == 0:
            p.structural('checkIntegrity accepts the fully driven hierarchy', not did_raise, detail={'raised': msg})
        else:
            p.structural('checkIntegrity raises when input #%d is left undriven' % k, did_raise, detail={'fault': k})


def tasks_for(tier):
    quick = tier == 'quick'
    t = [('construction API, template %s' % k, construct_task, {'template': k}) for k in ('flat', 'two-level')]
    seen = set()
    for mod, kind in ((c07, 'comb'), (c08, 'comb'), (c09, 'seq')):
        for name, cfg in mod.cfgs(tier):
            cls = name.split()[0]
            key = (cls,) if quick else (cls, zlib.crc32(name.encode()) % 4)
            if key in seen:
                continue
            seen.add(key)
            t.append(('integrity %s' % name, integrity_task, {'build': cfg['build'], 'kind': kind}))
    return t


def main(argv=None):
    args = common.parse_args(PROP, argv)
    return common.run_check(
        PROP, 'model_checking', tasks_for(args.tier), args, design_ref='DESIGN.md section 3 (C11)',
        technique='path-complete symbolic execution of the construction API and of checkIntegrity with symbolic selectors (operation, parent, name, wire, fault position); z3 decides selector feasibility',
        assumptions=['one operation after a generated template (a system with two wires, a box with one wire, one primitive driver; optionally a nested box)',
                     'a failed rename/reparent may leave the moved wire itself unregistered; the statement only demands that the earlier owner of the name stays in place',
                     'integrity clause: inputs driven by Constant blocks; single fault = one input left undriven'],
        bounds={'names': POOL, 'operations': 'Wire(), primitive construction (child name / second driver), rename, reparent, reparentAndRename',
                'integrity': 'one configuration per library block class of the C07/C08/C09 grids (thorough: up to 4)'},
        trusted_base=['symx selector forks (path-complete)', 'oracle predicates in checks/c11.py'])


if __name__ == '__main__':
    sys.exit(main())
