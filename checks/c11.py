"""
C11 -- ill-formed netlists are rejected when they are built or checked.

(a) construction API: from small templates, ONE operation with symbolic selectors (which
    operation, which parent, which name from a pool, which wire) is executed on every feasible
    selector path: it must raise exactly when it would create a second driver / a duplicate child
    name / a duplicate wire name, and after a raise the earlier driver, child and wire are still
    registered.
(b) integrity check: library blocks with every input driven are accepted; with a symbolic fault
    selector s (0 = none, k = input k left undriven) checkIntegrity must raise iff s != 0.
All symbolic data here are small selectors: the solver decides path feasibility, so this is
exhaustive enumeration within the template bounds (stated in DESIGN.md).
"""
import io
import itertools
import sys
import zlib

import z3

from . import common
from .comb import quiet
from . import c07, c08, c09
from symx import core
from symx.core import ctx, run_paths, pc_cond

import py4hw
import py4hw.debug
from py4hw.base import Wire, Logic
from py4hw.logic.bitwise import Buf, Constant, Not, And2
from . import designs as D

PROP = 'C11'
POOL = ['x', 'y', 'z', 'p1', 'b']


class InheritedBuf(Buf):
    """a user block that inherits propagate() from a library primitive without redefining it"""
    pass


class InheritedReg(py4hw.Reg):
    """a user block that inherits clock() from a library primitive"""
    pass


DRIVERS = {'Buf': Buf, 'a subclass inheriting propagate()': InheritedBuf, 'a subclass inheriting clock()': InheritedReg}
DRV = {'cls': Buf}


def mkbuf(parent, name, a, r):
    return DRV['cls'](parent, name, a, r)


def template(kind):
    s = py4hw.HWSystem()
    x, y = s.wire('x', 2), s.wire('y', 2)
    box = D.Box(s, 'b', {}, {}, lambda bx: None)
    bx = box.wire('x', 2)
    p1 = mkbuf(s, 'p1', x, y)
    extra = {}
    if kind == 'two-level':
        inner = D.Box(box, 'p1', {}, {}, lambda b2: None)
        iy = inner.wire('y', 2)
        extra = {'inner': inner, 'iy': iy}
    return s, box, x, y, bx, p1, extra


def registry_consistent(obj):
    """every registered wire/child is registered under its own name in its own parent"""
    for n, w in obj._wires.items():
        if w.name != n or w.parent is not obj:
            return False
    for n, c in obj.children.items():
        if c.name != n or c.parent is not obj:
            return False
        if not registry_consistent(c):
            return False
    return True


class Model:
    """abstract registry: what the construction API is supposed to maintain"""

    def __init__(self, s, box, x, y, bx, p1):
        self.parents = {'sys': s, 'box': box}
        self.wires = {'sys': {'x': x, 'y': y}, 'box': {'x': bx}}
        self.children = {'sys': {'p1': p1, 'b': box}, 'box': dict(box.children)}
        self.driven = {id(y)}

    def where(self, w):
        for k, d in self.wires.items():
            for n, o in d.items():
                if o is w:
                    return k, n
        return None, None


def run_op(m, s, box, x, y, o, par, name, w, k):
    """executes one operation; returns (description, conflict expected by the model, exception or None, model updater)"""
    pk = ['sys', 'box'][par]
    parent = m.parents[pk]
    what, expect, upd = '', False, (lambda: None)
    raised = None
    try:
        with quiet():
            if o == 0:
                what = 'Wire(%s, %r)' % (pk, name)
                expect = name in m.wires[pk]
                nw = Wire(parent, name, 2)
                upd = lambda: m.wires[pk].__setitem__(name, nw)
            elif o == 1:
                what = 'Buf(%s, %r, x, new)' % (pk, name)
                expect = name in m.children[pk]
                fresh = s.wire('fresh_target_%d' % k, 2)
                m.wires['sys']['fresh_target_%d' % k] = fresh
                c = mkbuf(parent, name, x, fresh)
                upd = lambda: (m.children[pk].__setitem__(name, c), m.driven.add(id(fresh)))
            elif o == 2:
                if par == 0:
                    tgt = y
                else:
                    tgt = s.wire('undriven_target_%d' % k, 2)
                    m.wires['sys']['undriven_target_%d' % k] = tgt
                what = 'Buf(sys, "drv%d", x, %s)' % (k, tgt.name)
                expect = id(tgt) in m.driven
                m.children['sys']['drv%d' % k] = None          # the child name is taken even when the driver is refused
                mkbuf(s, 'drv%d' % k, x, tgt)
                upd = lambda: m.driven.add(id(tgt))
            elif o == 6:
                # a second out port of the block that ALREADY drives y, attached to y again
                what = 'OutPort(p1, "alias%d", y)' % k
                expect = True
                from py4hw.base import OutPort
                p1 = m.children['sys']['p1']
                OutPort(p1, 'alias%d' % k, y)
            elif o in (7, 8):
                # tri-state primitives (in/out ports) on an ORDINARY wire: 7 = on y, which p1 already drives; 8 = two of them on a fresh wire
                # (the first is the wire's driver, the second must be refused and the first must stay)
                from py4hw.logic.bitwise import BidirBuf
                aux = {n: s.wire('%s_%d' % (n, k), 1) for n in ('pin_a', 'pin_b', 'pout', 'poe')}
                for n, wr in aux.items():
                    m.wires['sys'][wr.name] = wr
                m.children['sys']['tri%da' % k] = None
                m.children['sys']['tri%db' % k] = None
                expect = True
                if o == 7:
                    what = 'BidirBuf(sys, "tri%da", ..., y) on the ordinary wire y that p1 drives' % k
                    BidirBuf(s, 'tri%da' % k, aux['pin_a'], aux['pout'], aux['poe'], y)
                else:
                    what = 'two BidirBuf on one fresh ordinary wire'
                    pad = s.wire('pad_%d' % k, 1)
                    m.wires['sys'][pad.name] = pad
                    BidirBuf(s, 'tri%da' % k, aux['pin_a'], aux['pout'], aux['poe'], pad)
                    src0 = pad.source
                    try:
                        BidirBuf(s, 'tri%db' % k, aux['pin_b'], aux['pout'], aux['poe'], pad)
                    except Exception:
                        if pad.source is src0:
                            raise
                        what += ' (refused, but the earlier driver was replaced)'
            elif o == 3:
                wk, wn = m.where(w)
                what = '%s.rename(%r)' % (wn, name)
                expect = (name in m.wires[wk]) and (m.wires[wk][name] is not w)
                w.rename(name)

                def upd():
                    del m.wires[wk][wn]
                    m.wires[wk][name] = w
            elif o == 4:
                wk, wn = m.where(w)
                what = '%s.reparent(box)' % wn
                expect = (wn in m.wires['box']) and (m.wires['box'][wn] is not w)
                w.reparent(box)

                def upd():
                    del m.wires[wk][wn]
                    m.wires['box'][wn] = w
            else:
                wk, wn = m.where(w)
                what = '%s.reparentAndRename(box, %r)' % (wn, name)
                expect = (name in m.wires['box']) and (m.wires['box'][name] is not w)
                w.reparentAndRename(box, name)

                def upd():
                    del m.wires[wk][wn]
                    m.wires['box'][name] = w
    except Exception as e:
        raised = e
    return what, bool(expect), raised, upd


def construct_task(p, cfg, rec):
    DRV['cls'] = DRIVERS[cfg.get('driver', 'Buf')]
    kind = cfg['template']
    first = cfg['first']                       # the first operation is enumerated by the task list, the second is symbolic
    rec.update(['py4hw.base.Wire.__init__', 'py4hw.base.Logic.__init__', 'py4hw.base.Logic.appendWire', 'py4hw.base.Wire.setSource',
                'py4hw.base.Wire.rename', 'py4hw.base.Wire.reparent', 'py4hw.base.Wire.reparentAndRename', 'py4hw.base.OutPort.__init__'])
    op, opv = core.fresh_range('op', 0, 8)
    par, parv = core.fresh_range('parent', 0, 1)
    nm, nmv = core.fresh_range('name', 0, len(POOL) - 1)
    wsel, wv = core.fresh_range('wire', 0, 1)
    p.assumptions = list(ctx.assumptions)

    def scenario():
        with quiet():
            s, box, x, y, bx, p1, extra = template(kind)
        m = Model(s, box, x, y, bx, p1)
        y_src = y.source
        log = []
        steps = ([first] if first is not None else []) + [(int(op), int(par), int(nm), int(wsel))]
        for k, (o, pa, ni, wi) in enumerate(steps):
            w = [x, y][wi]
            if m.where(w)[0] is None:
                break
            pre_children = {kk: dict(o_.children) for kk, o_ in m.parents.items()}
            pre_wires = {kk: dict(d) for kk, d in m.wires.items()}
            what, expect, raised, upd = run_op(m, s, box, x, y, o, pa, POOL[ni], w, k)
            ok_state = True
            detail = {}
            if raised is None:
                upd()
                if y.source is not y_src:
                    ok_state = False
                    detail['driver of y'] = 'silently replaced'
            else:
                if y.source is not y_src:
                    ok_state = False
                    detail['driver of y'] = 'changed'
                for kk, o_ in m.parents.items():
                    for n_, c_ in pre_children[kk].items():
                        if o_.children.get(n_) is not c_:
                            ok_state = False
                            detail['child %s of %s' % (n_, kk)] = 'no longer registered'
                # the wire that already owned the conflicting name is still registered under it
                name = POOL[ni]
                tk = ['sys', 'box'][pa] if o == 0 else ('box' if o in (4, 5) else m.where(w)[0] or 'sys')
                key = name if o in (0, 3, 5) else (m.where(w)[1] if o == 4 else None)
                if key is not None and key in pre_wires.get(tk, {}) and m.parents[tk]._wires.get(key) is not pre_wires[tk][key]:
                    ok_state = False
                    detail['wire %s of %s' % (key, tk)] = 'replaced or dropped'
            log.append((what, expect, raised is not None, ok_state, detail))
            if raised is not None and o in (3, 4, 5):
                break                               # the moved wire's own registration after a refused move is unspecified
        return log
    res = run_paths(scenario)
    p.res['states'] += 1
    p.res['transitions'] += len(res)
    seen = set()
    for r in res:
        if r.exc is not None:
            p.structural('scenario completes', False, detail={'exception': repr(r.exc)})
            continue
        hist = []
        for what, expect, did_raise, ok_state, detail in r.ret:
            hist.append(what)
            key = ' ; '.join(hist)
            if key in seen:
                continue
            seen.add(key)
            p.structural('[%s] raises exactly when it creates a conflict' % key, expect == did_raise,
                         detail={'history': hist, 'conflict': expect, 'raised': did_raise})
            p.structural('[%s] leaves the earlier driver/child/wire in place' % key, ok_state, detail=dict(detail, history=hist))


# ---------------------------------------------------------------------------------------------------
def integrity_task(p, cfg, rec):
    build, kind = cfg['build'], cfg['kind']
    rec.update(['py4hw.debug.checkIntegrity', 'py4hw.debug.checkPort'])
    with quiet():
        s0 = py4hw.HWSystem()
        try:
            d0 = build(s0)
        except Exception:
            p.res['refused'] += 1
            return
    ins0 = d0[0] if kind == 'comb' else d0['ins']
    n = len(ins0)
    if n == 0:
        return
    sel, sv = core.fresh_range('fault', 0, n)
    p.assumptions = list(ctx.assumptions)

    def scenario():
        k = int(sel)
        with quiet():
            s = py4hw.HWSystem()
            d = build(s)
            ins = d[0] if kind == 'comb' else d['ins']
            for j, (nme, w) in enumerate(ins.items()):
                if j + 1 == k:
                    continue                       # fault: this input stays undriven
                Constant(s, 'drive_' + nme, 0, w)
            raised = None
            try:
                py4hw.debug.checkIntegrity(s)
            except Exception as e:
                raised = e
        return (k, raised is not None, repr(raised) if raised else None)
    res = run_paths(scenario)
    p.res['states'] += 1
    p.res['transitions'] += len(res)
    for r in res:
        if r.exc is not None:
            p.structural('integrity scenario completes', False, detail={'exception': repr(r.exc)})
            continue
        k, did_raise, msg = r.ret
        if k == 0:
            p.structural('checkIntegrity accepts the fully driven hierarchy', not did_raise, detail={'raised': msg})
        else:
            p.structural('checkIntegrity raises when input #%d is left undriven' % k, did_raise, detail={'fault': k})


class Probe(py4hw.Logic):
    """a leaf without propagate/clock (like Scope/Waveform): its ports register no sinks"""
    def __init__(self, parent, name, x):
        super().__init__(parent, name)
        self.addIn('x', x)


def hier_build(s, variant, skip):
    """a two/three-level hierarchy; every driver goes through drive(), which leaves out driver
    number `skip` (0 = none).  Returns the list of (driver index, driven wire)."""
    drivers = []

    def drive(w, thunk):
        drivers.append(w)
        if len(drivers) != skip:
            thunk()
    a, u, m, o, z = s.wire('a', 2), s.wire('u', 2), s.wire('m', 2), s.wire('o', 2), s.wire('z', 2)
    drive(a, lambda: Constant(s, 'da', 1, a))
    drive(u, lambda: Constant(s, 'du', 2, u))

    def body(b):
        t = b.wire('t', 2)
        if variant == 'nested':
            def inner(b2):
                drive(t, lambda: mkbuf(b2, 'bt', a, t))
            D.Box(b, 'in', {'a': a}, {'t': t}, inner)
        else:
            drive(t, lambda: mkbuf(b, 'bt', a, t))
        drive(m, lambda: Not(b, 'nm', t, m))
        drive(z, lambda: Constant(b, 'cz', 3, z))          # an output nobody reads
    D.Box(s, 'blk', {'a': a, 'u': u}, {'m': m, 'z': z}, body)   # input u is not used inside
    if variant == 'twins':
        # further instances of the same structural classes under the same parents, each with its own internal wires
        for k in (1, 2):
            mk_, zk_ = s.wire('m%d' % k, 2), s.wire('z%d' % k, 2)

            def bodyk(b, k=k, mk_=mk_, zk_=zk_):
                t = b.wire('t', 2)

                def inner(b2):
                    drive(t, lambda: mkbuf(b2, 'bt', a, t))
                D.Box(b, 'in', {'a': a}, {'t': t}, inner)
                drive(mk_, lambda: Not(b, 'nm', t, mk_))
                drive(zk_, lambda: Constant(b, 'cz', 3, zk_))
            D.Box(s, 'blk%d' % k, {'a': a, 'u': u}, {'m': mk_, 'z': zk_}, bodyk)
    if variant == 'samename':
        # a block whose two input ports carry two DIFFERENT wires that share their short name (one per parent scope)
        mn = s.wire('mn', 2)

        def bodyn(b):
            la = b.wire('a', 2)
            drive(la, lambda: Constant(b, 'cla', 1, la))
            drive(mn, lambda: And2(b, 'and', la, a, mn))
        D.Box(s, 'gate', {'a': a}, {'mn': mn}, bodyn)
    if variant == 'owned':
        # wires that do NOT belong to the parent of the blocks using them: (i) a block that creates its own output-port wire,
        # (ii) a wire moved into a grouping block with reparent(), (iii) a wire of the top level handed to a block two levels down
        own = {}

        def bodyo(b):
            ow = b.wire('ow', 2)                                 # created inside, then exported
            own['ow'] = ow
            drive(ow, lambda: mkbuf(b, 'bow', a, ow))
        blk_o = D.Box(s, 'owner', {'a': a}, {}, bodyo)
        blk_o.addOut('ow', own['ow'])
        rd = s.wire('rd', 2)
        drive(rd, lambda: Not(s, 'nrd', own['ow'], rd))
        grp = py4hw.Logic(s, 'grp')
        mv = s.wire('mv', 2)
        mv.reparent(grp)
        drive(mv, lambda: Constant(s, 'cmv', 1, mv))
        rm = s.wire('rm', 2)
        drive(rm, lambda: mkbuf(s, 'brm', mv, rm))
        # a grouping block WITHOUT ports of its own (all its wires are internal) with blocks inside
        g0 = py4hw.Logic(s, 'island')
        ia, ib, ir = g0.wire('ia', 2), g0.wire('ib', 2), g0.wire('ir', 2)
        drive(ia, lambda: Constant(g0, 'cia', 1, ia))
        drive(ib, lambda: Constant(g0, 'cib', 2, ib))
        drive(ir, lambda: And2(g0, 'gand', ia, ib, ir))
        Not(g0, 'gn', ir, g0.wire('unread', 2))
        deep = s.wire('deep', 2)

        def bodyd(b):
            def inner(b2):
                drive(deep, lambda: Not(b2, 'nd', a, deep))       # the top-level wire 'deep' is driven two levels down
            D.Box(b, 'in2', {'a': a}, {'deep': deep}, inner)
        D.Box(s, 'outer2', {'a': a}, {'deep': deep}, bodyd)
        rdeep = s.wire('rdeep', 2)
        drive(rdeep, lambda: mkbuf(s, 'brd', deep, rdeep))
    if variant == 'scope':
        Probe(s, 'probe', z)                                   # z is read only by a leaf that is not a primitive (no sink is registered)
    drive(o, lambda: mkbuf(s, 'bo', m, o))                       # o is attached to no port when this is left out
    return drivers


def ports_attached(root, w):
    n = 0
    for obj in [root] + list(all_logic(root)):
        for pt in list(obj.inPorts) + list(obj.outPorts):
            if pt.wire is w:
                n += 1
    return n


def all_logic(obj):
    for c in obj.children.values():
        yield c
        yield from all_logic(c)


def hier_task(p, cfg, rec):
    """single removed driver anywhere in a structural hierarchy, including wires nobody reads"""
    variant = cfg['variant']
    DRV['cls'] = DRIVERS[cfg.get('driver', 'Buf')]
    rec.update(['py4hw.debug.checkIntegrity', 'py4hw.debug.checkPort'])
    with quiet():
        n = len(hier_build(py4hw.HWSystem(), variant, 0))
    sel, sv = core.fresh_range('fault', 0, n)
    p.assumptions = list(ctx.assumptions)

    def scenario():
        k = int(sel)
        with quiet():
            s = py4hw.HWSystem()
            drivers = hier_build(s, variant, k)
            attached = ports_attached(s, drivers[k - 1]) if k else 0
            raised = None
            try:
                py4hw.debug.checkIntegrity(s)
            except Exception as e:
                raised = e
        return (k, drivers[k - 1].name if k else None, attached, raised is not None, repr(raised) if raised else None)
    res = run_paths(scenario)
    p.res['states'] += 1
    p.res['transitions'] += len(res)
    p.structural('every fault position explored', sorted(r.ret[0] for r in res if r.exc is None) == list(range(n + 1)),
                 detail={'explored': [r.ret[0] for r in res if r.exc is None]})
    for r in res:
        if r.exc is not None:
            p.structural('integrity scenario completes', False, detail={'exception': repr(r.exc)})
            continue
        k, wname, attached, did_raise, msg = r.ret
        if k == 0:
            p.structural('checkIntegrity accepts the fully driven hierarchy', not did_raise, detail={'raised': msg})
        elif attached:
            p.structural('checkIntegrity raises when the driver of %s (attached to %d ports) is removed' % (wname, attached), did_raise,
                         detail={'fault': k, 'wire': wname, 'ports attached': attached})
        else:
            p.structural('checkIntegrity accepts when the undriven wire %s is attached to no port' % wname, not did_raise,
                         detail={'fault': k, 'wire': wname, 'raised': msg})


def oddname_task(p, cfg, rec):
    """child names that are different objects but print alike (a loop index 7 and the string '7', 1 and True ...): either the
    second instantiation is refused, or both children are registered and each answers to its own, distinct name"""
    n1, n2 = cfg['names']
    with quiet():
        s = py4hw.HWSystem()
        x, y1, y2 = s.wire('x', 2), s.wire('y1', 2), s.wire('y2', 2)
        c1 = Buf(s, n1, x, y1)
        raised = None
        try:
            c2 = Buf(s, n2, x, y2)
        except Exception as e:
            raised = e
    if raised is not None:
        p.structural('a refused instantiation leaves the first child in place', s.children.get(n1) is c1 and c1.name == n1, detail={'raised': repr(raised)})
        return
    names = [c.name for c in s.children.values()]
    p.structural('two accepted children have two different names', len(set(map(repr, names))) == len(names) and c1.name != c2.name,
                 detail={'children names': [repr(n) for n in names]})
    p.structural('every child is registered under the name it reports', all(c.name == k and type(c.name) is type(k) for k, c in s.children.items()),
                 detail={'registry': [(repr(k), repr(c.name)) for k, c in s.children.items()]})
    try:
        paths = (c1.getFullPath(), c2.getFullPath())
    except TypeError:
        return                         # the path printer only takes string names; nothing more to compare
    p.structural('the two children have different full paths', paths[0] != paths[1], detail={'path': paths[0]})


FRESH_SCRIPT = r"""
import sys, json, io, contextlib
import py4hw
from py4hw.logic.bitwise import And2, Or2, Buf, Not
out = {}
with contextlib.redirect_stdout(io.StringIO()):
    s = py4hw.HWSystem()
    a, b, r, o = s.wire('a', 2), s.wire('b', 2), s.wire('r', 2), s.wire('o', 2)
    order = sys.argv[1]
    def group():
        g = py4hw.Logic(s, 'grp')            # a bare structural grouping block with ports of its own
        g.addIn('a', a); g.addIn('b', b); g.addOut('r', r)
        return g
    def prims(parent):
        And2(parent, 'g1', a, b, r)
    if order == 'group-first':
        g = group(); prims(g)
    else:
        Buf(s, 'warm', a, s.wire('w0', 2)); g = group(); prims(g)
    py4hw.Constant(s, 'ka', 1, a); py4hw.Constant(s, 'kb', 2, b)
    Not(s, 'n', r, o)
    out['source registered'] = r.getSource() is not None
    try:
        Or2(g, 'g2', a, b, r)
        out['second driver refused'] = False
    except Exception:
        out['second driver refused'] = True
    out['first driver kept'] = (r.getSource() is not None and r.getSource().parent.name == 'g1')
    try:
        py4hw.debug.checkIntegrity(s)
        out['fully driven hierarchy accepted'] = True
    except Exception as e:
        out['fully driven hierarchy accepted'] = False
        out['error'] = str(e)[:200]
    u = s.wire('u', 2)
    Not(s, 'reads_u', u, s.wire('v', 2))
    try:
        py4hw.debug.checkIntegrity(s)
        out['undriven port wire reported'] = False
    except Exception:
        out['undriven port wire reported'] = True
sys.stdout.write('@@' + json.dumps(out))
"""


def fresh_task(p, cfg, rec):
    """the same construction/integrity obligations in a FRESH interpreter, where the first block the library ever sees is a bare
    structural grouping block (class-level caches are cold and are filled by it).  Executed concretely: no data involved."""
    import subprocess
    import json as _json
    r = subprocess.run([sys.executable, '-W', 'ignore', '-c', FRESH_SCRIPT, cfg['order']], capture_output=True, text=True, timeout=300)
    if r.returncode != 0 or '@@' not in r.stdout:
        p.inconclusive('fresh interpreter', 'script failed: %s' % r.stderr[-300:])
        return
    out = _json.loads(r.stdout.split('@@', 1)[1])
    for k in ('source registered', 'second driver refused', 'first driver kept', 'fully driven hierarchy accepted', 'undriven port wire reported'):
        p.structural('fresh interpreter (%s): %s' % (cfg['order'], k), bool(out.get(k)), detail=out)


def tasks_for(tier):
    pre = [('fresh interpreter, %s' % o, fresh_task, {'order': o}) for o in ('group-first', 'primitive-first')]
    quick = tier == 'quick'
    t = [('construction API, template %s, one operation' % k, construct_task, {'template': k, 'first': None}) for k in ('flat', 'two-level')]
    # two-operation histories: the first operation enumerated here, the second by symbolic selectors
    firsts = []
    for o in range(7):
        for pa in (0, 1):
            for ni in range(len(POOL)):
                for wi in (0, 1):
                    if o in (0, 1) and wi == 1:
                        continue            # the wire selector is unused
                    if o == 2 and (ni > 0 or wi == 1):
                        continue
                    if o in (3, 5) and pa == 1:
                        continue
                    if o == 4 and (ni > 0 or pa == 1):
                        continue
                    if o == 6 and (ni > 0 or wi == 1 or pa == 1):
                        continue
                    firsts.append((o, pa, ni, wi))
    for f in firsts:
        if quick and f[0] in (0, 1) and f[2] not in (0, 2):
            continue
        t.append(('construction API, history starting with op%d parent%d name %s wire%d' % (f[0], f[1], POOL[f[2]], f[3]), construct_task,
                  {'template': 'flat', 'first': f}))
    for names in ((7, '7'), ('7', 7), (1, '1'), ('a', 'a '), ('A', 'a'), (0, '0')):
        t.append(('children named %r and %r' % names, oddname_task, {'names': names}))
    for v in ('plain', 'nested', 'scope', 'twins', 'samename', 'owned'):
        t.append(('integrity of a structural hierarchy (%s), one removed driver at a symbolic position' % v, hier_task, {'variant': v}))
    for drv in list(DRIVERS)[1:]:
        t.append(('construction API, template flat, one operation, drivers are %s' % drv, construct_task, {'template': 'flat', 'first': None, 'driver': drv}))
        t.append(('integrity of a structural hierarchy (plain), drivers are %s' % drv, hier_task, {'variant': 'plain', 'driver': drv}))
    seen = set()
    for mod, kind in ((c07, 'comb'), (c08, 'comb'), (c09, 'seq')):
        for name, cfg in mod.cfgs(tier):
            cls = name.split()[0]
            key = (cls,) if quick else (cls, zlib.crc32(name.encode()) % 4)
            if key in seen:
                continue
            seen.add(key)
            t.append(('integrity %s' % name, integrity_task, {'build': cfg['build'], 'kind': kind}))
    return pre + t


def main(argv=None):
    args = common.parse_args(PROP, argv)
    return common.run_check(
        PROP, 'model_checking', tasks_for(args.tier), args, design_ref='DESIGN.md section 3 (C11)',
        technique='path-complete symbolic execution of the construction API and of checkIntegrity with symbolic selectors (operation, parent, name, wire, fault position); z3 decides selector feasibility',
        assumptions=['histories of one or two operations after a generated template (a system with two wires, a box with one wire, one primitive driver; optionally a nested box); the expected outcome comes from an abstract registry model, not from the implementation state',
                     'a failed rename/reparent may leave the moved wire itself unregistered; the statement only demands that the earlier owner of the name stays in place',
                     'integrity clause: inputs driven by Constant blocks; single fault = one input left undriven (library blocks) or one driver removed at any position of a generated structural hierarchy, including wires nobody reads, unused inputs and wires attached to no port'],
        bounds={'names': POOL, 'operations': 'Wire(), primitive construction (child name / second driver), a second out port of the driving block on the same wire, tri-state primitives (in/out ports) as second driver of an ordinary wire, rename, reparent, reparentAndRename',
                'integrity': 'one configuration per library block class of the C07/C08/C09 grids (thorough: up to 4)'},
        trusted_base=['symx selector forks (path-complete)', 'oracle predicates in checks/c11.py'])


if __name__ == '__main__':
    sys.exit(main())
