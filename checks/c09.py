"""
C09 -- storage and sequential blocks follow their reference state machines.

Per block and parameter point: power-up outputs, ONE STEP FROM ANY STATE with any inputs
(induction => input sequences of any length), and a BMC cross-check from power-up, all
against a reference machine written on z3 terms.
"""
import itertools
import sys

import z3

from . import common
from .comb import zx, sx, quiet
from .seq import seq_task, find, concrete_run
from symx import core, symsim

import py4hw
from py4hw.logic.storage import (Reg, TReg, DelayLine, PipelinePhase, SynchronousMemory, DualPortSynchronousMemory,
                                 ShiftRegisterBidirectional, Stack_ShiftRegister)
from py4hw.logic.arithmetic import Counter, ModuloCounter, StepUpCounter
from py4hw.logic.clock import EdgeDetector, ClockDivider

PROP = 'C09'


def W(s, n, w):
    return s.wire(n, w)


def bv(v, w):
    return z3.BitVecVal(v, w)


def reg_rule(q, d, e, r, rv, w):
    """reset (==1) > enable (!=0) > hold"""
    t = zx(d, w) if d.size() != w else d
    if e is not None:
        t = z3.If(e != 0, t, q)
    if r is not None:
        t = z3.If(r == 1, bv(rv, w), t)
    return t


def cfgs(tier):
    quick = tier == 'quick'
    ws = [1, 2, 4, 8] if quick else [1, 2, 3, 4, 5, 8, 12, 16]

    # ---- Reg ------------------------------------------------------------------------------------
    def reg_cfg(w, dw, en, rs, rv, ew=1, rw_=1):
        def build(s):
            d, q = W(s, 'd', dw), W(s, 'q', w)
            ins = {'d': d}
            e = r = None
            if en:
                e = W(s, 'e', ew)
                ins['e'] = e
            if rs:
                r = W(s, 'r', rw_)
                ins['r'] = r
            leaf = Reg(s, 'dut', d, q, enable=e, reset=r, reset_value=rv)
            return {'ins': ins, 'outs': {'q': q}, 'regs': {'dut': leaf}}
        rvm = (rv or 0) & ((1 << w) - 1)
        return {'build': build, 'init': {'dut': rvm},
                'next': lambda S, I: {'dut': reg_rule(S['dut'], I['d'], I.get('e'), I.get('r'), rvm, w)},
                'out': lambda S, I: {'q': S['dut']}}
    for w in ws:
        for en, rs in itertools.product((0, 1), (0, 1)):
            for rv in ([None, 1, (1 << w) - 1] if quick else [None, 0, 1, (1 << w) - 1, -1, (1 << w) + 1]):
                if rv is not None and not rs and rv != 1:
                    continue
                yield 'Reg w%d e%d r%d rv%s' % (w, en, rs, rv), reg_cfg(w, w, en, rs, rv)
        yield 'Reg w%d d%d e1 r1 (wider d)' % (w, w + 2), reg_cfg(w, w + 2, 1, 1, None)
        yield 'Reg w%d e2bit r2bit' % w, reg_cfg(w, w, 1, 1, None, ew=2, rw_=2)

    # ---- TReg ------------------------------------------------------------------------------------
    def treg_cfg(en, rs, tw=1):
        def build(s):
            t, q = W(s, 't', tw), W(s, 'q', 1)
            ins = {'t': t}
            e = r = None
            if en:
                e = W(s, 'e', 1)
                ins['e'] = e
            if rs:
                r = W(s, 'r', 1)
                ins['r'] = r
            dut = TReg(s, 'dut', t, q, enable=e, reset=r)
            return {'ins': ins, 'outs': {'q': q}, 'regs': {'reg': find(dut, 'reg')}}
        return {'build': build, 'init': {'reg': 0},
                'next': lambda S, I: {'reg': reg_rule(S['reg'], z3.If(z3.Extract(0, 0, I['t']) == 1, ~S['reg'], S['reg']), I.get('e'), I.get('r'), 0, 1)},
                'out': lambda S, I: {'q': S['reg']}}
    for en, rs in itertools.product((0, 1), (0, 1)):
        yield 'TReg e%d r%d' % (en, rs), treg_cfg(en, rs)
        for tw in ((2, 8) if quick else (2, 3, 8)):
            # a wider toggle input: the selecting Mux2 looks at its lowest bit
            yield 'TReg e%d r%d toggle input %d bits' % (en, rs, tw), treg_cfg(en, rs, tw)

    # ---- counters -----------------------------------------------------------------------------------
    def counter_cfg(w, has_reset, has_inc):
        def build(s):
            q = W(s, 'q', w)
            ins = {}
            r = i = None
            if has_reset:
                r = W(s, 'reset', 1)
                ins['reset'] = r
            if has_inc:
                i = W(s, 'inc', 1)
                ins['inc'] = i
            dut = Counter(s, 'dut', r, i, q)
            return {'ins': ins, 'outs': {'q': q}, 'regs': {'reg': find(dut, 'reg')}}

        def nx(S, I):
            t = S['reg']
            t = z3.If(I['inc'] == 1, t + 1, t) if has_inc else t + 1
            if has_reset:
                t = z3.If(I['reset'] == 1, bv(0, w), t)
            return {'reg': t}
        return {'build': build, 'init': {'reg': 0}, 'next': nx, 'out': lambda S, I: {'q': S['reg']}}
    for w in ws:
        for hr, hi in itertools.product((0, 1), (0, 1)):
            yield 'Counter w%d reset%d inc%d' % (w, hr, hi), counter_cfg(w, hr, hi)

    def modcounter_cfg(w, mod):
        def build(s):
            q, co = W(s, 'q', w), W(s, 'carryout', 1)
            r, i = W(s, 'reset', 1), W(s, 'inc', 1)
            dut = ModuloCounter(s, 'dut', mod, r, i, q, co)
            return {'ins': {'reset': r, 'inc': i}, 'outs': {'q': q, 'carryout': co}, 'regs': {'reg': find(dut, 'reg')}}

        def nx(S, I):
            q = S['reg']
            t = z3.If(I['inc'] == 1, z3.If(q == bv(mod - 1, w), bv(0, w), q + 1), q)
            return {'reg': z3.If(I['reset'] == 1, bv(0, w), t)}
        return {'build': build, 'init': {'reg': 0}, 'next': nx,
                'out': lambda S, I: {'q': S['reg'], 'carryout': z3.If(S['reg'] == bv(mod - 1, w), bv(1, 1), bv(0, 1))}}
    for w in ([1, 2, 3, 4] if quick else [1, 2, 3, 4, 5, 6]):
        for mod in range(1, (1 << w) + 1):
            if w > 4 and mod not in (1, 2, 3, (1 << w) - 1, 1 << w, (1 << (w - 1)) + 1, 10):
                continue
            yield 'ModuloCounter w%d mod%d' % (w, mod), modcounter_cfg(w, mod)

    def stepcounter_cfg(w, sw):
        def build(s):
            q = W(s, 'q', w)
            r, i, st = W(s, 'reset', 1), W(s, 'inc', 1), W(s, 'step', sw)
            dut = StepUpCounter(s, 'dut', r, i, st, q)
            return {'ins': {'reset': r, 'inc': i, 'step': st}, 'outs': {'q': q}, 'regs': {'reg': find(dut, 'reg')}}

        def nx(S, I):
            n = max(w, sw) + 1
            t = z3.Extract(w - 1, 0, zx(S['reg'], n) + zx(I['step'], n))
            t = z3.If(I['inc'] == 1, t, S['reg'])
            return {'reg': z3.If(I['reset'] == 1, bv(0, w), t)}
        return {'build': build, 'init': {'reg': 0}, 'next': nx, 'out': lambda S, I: {'q': S['reg']}}
    for w in ws:
        for sw in sorted(set([1, w, max(1, w - 1)])):
            yield 'StepUpCounter w%d step%d' % (w, sw), stepcounter_cfg(w, sw)

    # ---- DelayLine / PipelinePhase ---------------------------------------------------------------------
    def delay_cfg(w, n, has_en, has_reset):
        def build(s):
            a, r = W(s, 'a', w), W(s, 'r', w)
            ins = {'a': a}
            en = rs = None
            if has_en:
                en = W(s, 'en', 1)
                ins['en'] = en
            if has_reset:
                rs = W(s, 'reset', 1)
                ins['reset'] = rs
            dut = DelayLine(s, 'dut', a, en, rs, r, n)
            return {'ins': ins, 'outs': {'r': r}, 'regs': {'r%d' % k: find(dut, 'r%d' % k) for k in range(n)}}

        def nx(S, I):
            o = {}
            prev = I['a']
            for k in range(n):
                o['r%d' % k] = reg_rule(S['r%d' % k], prev, I.get('en'), I.get('reset'), 0, w)
                prev = S['r%d' % k]
            return o
        return {'build': build, 'init': {}, 'next': nx,
                'out': lambda S, I: {'r': S['r%d' % (n - 1)] if n > 0 else I['a']}}
    for w in ([1, 4] if quick else [1, 3, 8]):
        for n in ((0, 1, 2, 3, 4) if quick else (0, 1, 2, 3, 4, 5, 6)):
            for he, hr in itertools.product((0, 1), (0, 1)):
                yield 'DelayLine w%d n%d en%d reset%d' % (w, n, he, hr), delay_cfg(w, n, he, hr)

    def pipe_cfg(widths):
        def build(s):
            rs = W(s, 'reset', 1)
            ins = [W(s, 'in%d' % k, w) for k, w in enumerate(widths)]
            outs = [W(s, 'out%d' % k, w) for k, w in enumerate(widths)]
            dut = PipelinePhase(s, 'dut', rs, ins, outs)
            d = {'reset': rs}
            d.update(('in%d' % k, x) for k, x in enumerate(ins))
            return {'ins': d, 'outs': {'out%d' % k: x for k, x in enumerate(outs)},
                    'regs': {'r%d' % k: find(dut, 'r%d' % k) for k in range(len(widths))}}
        return {'build': build, 'init': {},
                'next': lambda S, I: {'r%d' % k: reg_rule(S['r%d' % k], I['in%d' % k], None, I['reset'], 0, w) for k, w in enumerate(widths)},
                'out': lambda S, I: {'out%d' % k: S['r%d' % k] for k in range(len(widths))}}
    for widths in ([(1,), (4, 2), (3, 1, 8)] if quick else [(1,), (4, 2), (3, 1, 8), (8, 8, 8, 8), (16, 1)]):
        yield 'PipelinePhase %s' % '_'.join(map(str, widths)), pipe_cfg(widths)

    # ---- shift register / stack -------------------------------------------------------------------------
    def shreg_cfg(w, depth):
        def build(s):
            li, ri, lo, ro = W(s, 'left_in', w), W(s, 'right_in', w), W(s, 'left_out', w), W(s, 'right_out', w)
            sl, sr = W(s, 'shift_left', 1), W(s, 'shift_right', 1)
            dut = ShiftRegisterBidirectional(s, 'dut', li, ri, lo, ro, sl, sr, depth)
            return {'ins': {'left_in': li, 'right_in': ri, 'shift_left': sl, 'shift_right': sr},
                    'outs': {'left_out': lo, 'right_out': ro},
                    'regs': {'r%d' % k: find(dut, 'r%d' % k) for k in range(depth)}}

        def nx(S, I):
            o = {}
            for k in range(depth):
                fl = I['left_in'] if k == 0 else S['r%d' % (k - 1)]
                fr = I['right_in'] if k == depth - 1 else S['r%d' % (k + 1)]
                o['r%d' % k] = z3.If(I['shift_left'] == 1, fr, z3.If(I['shift_right'] == 1, fl, S['r%d' % k]))
            return o
        return {'build': build, 'init': {}, 'next': nx,
                'out': lambda S, I: {'left_out': S['r0'], 'right_out': S['r%d' % (depth - 1)]}}
    for w in ([1, 4] if quick else [1, 3, 8]):
        for depth in ((1, 2, 3, 4) if quick else (1, 2, 3, 4, 5, 6)):
            yield 'ShiftRegisterBidirectional w%d depth%d' % (w, depth), shreg_cfg(w, depth)

    def stack_cfg(w, depth):
        def build(s):
            din, dout, push, pop = W(s, 'din', w), W(s, 'dout', w), W(s, 'push', 1), W(s, 'pop', 1)
            dut = Stack_ShiftRegister(s, 'dut', din, dout, push, pop, None, None, depth)
            regs = {'r%d' % k: find(dut, 'shift/r%d' % k) for k in range(depth)}
            regs['dout'] = find(dut, 'dout')
            return {'ins': {'din': din, 'push': push, 'pop': pop}, 'outs': {'dout': dout}, 'regs': regs}

        def nx(S, I):
            o = {}
            for k in range(depth):
                pushed = I['din'] if k == 0 else S['r%d' % (k - 1)]
                popped = bv(0, w) if k == depth - 1 else S['r%d' % (k + 1)]
                o['r%d' % k] = z3.If(I['pop'] == 1, popped, z3.If(I['push'] == 1, pushed, S['r%d' % k]))
            o['dout'] = z3.If(I['pop'] == 1, S['r0'], S['dout'])
            return o
        return {'build': build, 'init': {}, 'next': nx, 'out': lambda S, I: {'dout': S['dout']}}
    for w in ([1, 4] if quick else [1, 3, 8]):
        for depth in ((1, 2, 3, 4) if quick else (1, 2, 3, 4, 5)):
            yield 'Stack_ShiftRegister w%d depth%d' % (w, depth), stack_cfg(w, depth)

    # ---- edge detector / clock divider ---------------------------------------------------------------------
    def edge_cfg(direction):
        def build(s):
            a, r = W(s, 'a', 1), W(s, 'r', 1)
            dut = EdgeDetector(s, 'dut', a, r, direction)
            return {'ins': {'a': a}, 'outs': {'r': r}, 'regs': {'z1': find(dut, 'z1')}}

        def out(S, I):
            a, z = I['a'], S['z1']
            return {'r': {'pos': a & ~z, 'neg': ~a & z, 'both': a ^ z}[direction]}
        return {'build': build, 'init': {}, 'next': lambda S, I: {'z1': I['a']}, 'out': out}
    for direction in ('pos', 'neg', 'both'):
        yield 'EdgeDetector %s' % direction, edge_cfg(direction)

    def clkdiv_cfg(n, has_reset):
        import math
        qw = int(math.log2(n)) + 1

        def build(s):
            clkout = W(s, 'clkout', 1)
            ins = {}
            rs = None
            if has_reset:
                rs = W(s, 'reset', 1)
                ins['reset'] = rs
            dut = ClockDivider(s, 'dut', 2.0 * n, 1.0, clkout, reset=rs)
            return {'ins': ins, 'outs': {'clkout': clkout},
                    'regs': {'count': find(dut, 'count/reg'), 'clk': find(dut, 'clkout/reg')}}

        def nx(S, I):
            c, k = S['count'], S['clk']
            wrap = c == bv(n - 1, qw)
            c2 = z3.If(wrap, bv(0, qw), c + 1)
            k2 = z3.If(wrap, ~k, k)
            if has_reset:
                c2 = z3.If(I['reset'] == 1, bv(0, qw), c2)
                k2 = z3.If(I['reset'] == 1, bv(0, 1), k2)
            return {'count': c2, 'clk': k2}
        return {'build': build, 'init': {}, 'next': nx, 'out': lambda S, I: {'clkout': S['clk']}, 'bmc': 2 * n + 3}
    for n in ((1, 2, 3, 4, 5, 6) if quick else (1, 2, 3, 4, 5, 6, 7, 8, 9, 16)):
        for hr in (0, 1):
            yield 'ClockDivider n%d reset%d' % (n, hr), clkdiv_cfg(n, hr)

    # ---- synchronous memories ----------------------------------------------------------------------------------
    def smem_cfg(aw, dw):
        n = 1 << aw

        def build(s):
            ra, wa, wr, rd, wd = W(s, 'ra', aw), W(s, 'wa', aw), W(s, 'write', 1), W(s, 'readdata', dw), W(s, 'writedata', dw)
            dut = SynchronousMemory(s, 'dut', ra, wa, wr, rd, wd)
            return {'ins': {'ra': ra, 'wa': wa, 'write': wr, 'writedata': wd}, 'outs': {'readdata': rd}, 'mems': {'m': dut}}

        def nx(S, I):
            o = {}
            rdv = S['m[0]']
            for k in range(1, n):
                rdv = z3.If(I['ra'] == k, S['m[%d]' % k], rdv)
            o['m.readdata'] = rdv                     # content before a same-cycle write
            for k in range(n):
                o['m[%d]' % k] = z3.If(z3.And(I['write'] != 0, I['wa'] == k), I['writedata'], S['m[%d]' % k])
            return o
        return {'build': build, 'init': {}, 'next': nx, 'out': lambda S, I: {'readdata': S['m.readdata']}}
    for aw, dw in ([(1, 1), (2, 4), (1, 8)] if quick else [(1, 1), (2, 4), (1, 8), (3, 4), (2, 8)]):
        yield 'SynchronousMemory aw%d dw%d' % (aw, dw), smem_cfg(aw, dw)

    def dpmem_cfg(aw, dw):
        n = 1 << aw

        def build(s):
            w = {}
            for pn, ww in (('ra_a', aw), ('wa_a', aw), ('write_a', 1), ('rd_a', dw), ('wd_a', dw),
                           ('ra_b', aw), ('wa_b', aw), ('write_b', 1), ('rd_b', dw), ('wd_b', dw)):
                w[pn] = W(s, pn, ww)
            dut = DualPortSynchronousMemory(s, 'dut', w['ra_a'], w['wa_a'], w['write_a'], w['rd_a'], w['wd_a'],
                                            w['ra_b'], w['wa_b'], w['write_b'], w['rd_b'], w['wd_b'])
            ins = {k: v for k, v in w.items() if not k.startswith('rd_')}
            return {'ins': ins, 'outs': {'rd_a': w['rd_a'], 'rd_b': w['rd_b']}, 'mems': {'m': dut}}

        def rd(S, addr):
            t = S['m[0]']
            for k in range(1, n):
                t = z3.If(addr == k, S['m[%d]' % k], t)
            return t

        def nx(S, I):
            o = {'m.readdata_a': rd(S, I['ra_a']), 'm.readdata_b': rd(S, I['ra_b'])}
            for k in range(n):
                t = z3.If(z3.And(I['write_a'] != 0, I['wa_a'] == k), I['wd_a'], S['m[%d]' % k])
                o['m[%d]' % k] = z3.If(z3.And(I['write_b'] != 0, I['wa_b'] == k), I['wd_b'], t)
            return o
        # a write collision of both ports on one address is left to the implementation (port b wins here)
        return {'build': build, 'init': {}, 'next': nx,
                'out': lambda S, I: {'rd_a': S['m.readdata_a'], 'rd_b': S['m.readdata_b']},
                'assume': lambda S, I: z3.Not(z3.And(I['write_a'] != 0, I['write_b'] != 0, I['wa_a'] == I['wa_b']))}
    for aw, dw in ([(1, 2), (2, 2)] if quick else [(1, 2), (2, 2), (2, 8)]):
        yield 'DualPortSynchronousMemory aw%d dw%d' % (aw, dw), dpmem_cfg(aw, dw)


# --------------------------------------------------------------------------------------------------
# LIFO claim on the abstract stack: enumerated push/pop/idle patterns (control), symbolic data

def lifo_task(p, cfg, rec):
    w, depth, pattern = cfg['w'], cfg['depth'], cfg['pattern']
    with quiet():
        s = py4hw.HWSystem()
        din, dout, push, pop = W(s, 'din', w), W(s, 'dout', w), W(s, 'push', 1), W(s, 'pop', 1)
        Stack_ShiftRegister(s, 'dut', din, dout, push, pop, None, None, depth)
    symsim.instrument(s, rec)
    with quiet():
        sim = s.getSimulator()
    stack = []
    vs = {}
    for k, op in enumerate(pattern):
        x, v = core.fresh('d%d' % k, w)
        vs['d%d' % k] = v
        din.put(x)
        push.put(1 if op == 'U' else 0)
        pop.put(1 if op == 'O' else 0)
        with quiet():
            sim.clk(1)
        p.res['transitions'] += 1
        if op == 'U':
            stack.append(v)
        elif op == 'O':
            top = stack.pop()

            def replay(values, k=k, top=top):
                with quiet():
                    s2 = py4hw.HWSystem()
                    di, do, pu, po = W(s2, 'din', w), W(s2, 'dout', w), W(s2, 'push', 1), W(s2, 'pop', 1)
                    Stack_ShiftRegister(s2, 'dut', di, do, pu, po, None, None, depth)
                    sm = s2.getSimulator()
                    for j in range(k + 1):
                        di.put(values['d%d' % j])
                        pu.put(1 if pattern[j] == 'U' else 0)
                        po.put(1 if pattern[j] == 'O' else 0)
                        sm.clk(1)
                exp = z3.simplify(z3.substitute(top, *[(vs[n], z3.BitVecVal(values[n], w)) for n in vs if n in values])).as_long()
                return None if do.get() == exp else {'pattern': pattern[:k + 1], 'got': do.get(), 'expected': exp}
            from .seq import neq
            p.prove('pop@%d' % (k + 1), neq(dout.get(), top), inputs=dict(vs), replay=replay)


def lifo_cfgs(tier):
    quick = tier == 'quick'
    L = 5 if quick else 8
    for depth in ((1, 2, 3) if quick else (1, 2, 3, 4)):
        def gen(prefix, count):
            if len(prefix) == L:
                yield prefix
                return
            for op in 'UOI':
                c = count + (1 if op == 'U' else -1 if op == 'O' else 0)
                if 0 <= c <= depth:
                    yield from gen(prefix + op, c)
        for pat in gen('', 0):
            if 'O' in pat and (not pat.endswith('I')):
                yield 'LIFO depth%d %s' % (depth, pat), {'w': 3, 'depth': depth, 'pattern': pat}


def replay(rec):
    for name, cfg in itertools.chain(cfgs('quick'), cfgs('thorough')):
        if name == rec['config']:
            break
    else:
        return {'note': 'replay of LIFO patterns: rerun ./check C09 --only "%s"' % rec['config']}
    v = rec['inputs']
    d = rec.get('detail') or {}
    if d.get('phase') == 'step':
        st = {k[2:]: x for k, x in v.items() if k.startswith('s:')}
        inp = {k[2:]: x for k, x in v.items() if k.startswith('i:')}
        tr = concrete_run(cfg, [inp], init_state=st)
        return {'state_after': {k: int(x) for k, x in tr[1][1].items()}, 'outs_after': tr[1][0], 'recorded': d}
    if d.get('phase') == 'bmc':
        tr = concrete_run(cfg, d['inputs_per_cycle'])
        return {'outs_per_cycle': [t[0] for t in tr], 'recorded': d}
    return {'recorded': d}


def main(argv=None):
    args = common.parse_args(PROP, argv)
    tasks = [(name, seq_task, cfg) for name, cfg in cfgs(args.tier)]
    tasks += [(name, lifo_task, cfg) for name, cfg in lifo_cfgs(args.tier)]
    return common.run_check(
        PROP, 'model_checking', tasks, args, design_ref='DESIGN.md section 3 (C09)',
        technique='symbolic execution of the real clock()/simulator from a symbolic pre-state (one inductive step) plus BMC from power-up; QF_BV queries against a reference machine',
        assumptions=['state correspondence: one reference state variable per Reg leaf / memory cell / registered read port',
                     'representation invariant: Reg.value == q, all values in range',
                     'dual-port memory: simultaneous writes of both ports to one address are excluded',
                     'Stack: push and pop not asserted together; no push beyond depth, no pop when empty (LIFO clause)'],
        bounds={'widths': '1..8 (quick) / 1..16 (thorough)', 'depths/delays': '1..4 / 1..6', 'moduli': 'all up to 2**4 / selected up to 2**6',
                'history': 'unbounded by 1-step induction from any in-range state; BMC 4/10 cycles from power-up as cross-check; LIFO patterns of length 5/8'},
        trusted_base=['z3', 'symx operator semantics (validated per run against concrete simulation)', 'reference machines in checks/c09.py'],
        replay_fn=replay)


if __name__ == '__main__':
    sys.exit(main())
