"""
C20 -- the hardware-in-the-loop UART command codec decodes and encodes exactly.

CMDRequest: command strings whose hex digits are symbolic characters (global assumption:
upper-case hex digit), producer pacing from enumerated delay patterns; each action line must
pulse exactly once with index/v equal to the decoded number, start_resp after set_index_out,
exactly n clock pulses for K<n>;.
CMDResponse: symbolic value, size 1..4, consumer ready a fresh symbol per cycle; the characters
transferred on valid&&ready are '=', size hex digits MSB first, '!', nothing after.
"""
import itertools
import sys

import z3

from . import common
from .comb import quiet, zx
from symx import core, symsim
from symx.core import ctx

import py4hw
from py4hw.emulation.HILWrapperUART import CMDRequest, CMDResponse

PROP = 'C20'

OUTS = ['index_in', 'v_in', 'index_out', 'set_index_in', 'set_v_in', 'set_index_out', 'clk_pulse', 'start_resp']


def build_req(s, iw=8, vw=16):
    w = {'ready': s.wire('ready'), 'valid': s.wire('valid'), 'c': s.wire('c', 8),
         'index_in': s.wire('index_in', iw), 'v_in': s.wire('v_in', vw), 'index_out': s.wire('index_out', iw)}
    for n in ('set_index_in', 'set_v_in', 'set_index_out', 'clk_pulse', 'start_resp'):
        w[n] = s.wire(n)
    CMDRequest(s, 'dut', w['ready'], w['valid'], w['c'], w['index_in'], w['v_in'], w['index_out'], w['set_index_in'],
               w['set_v_in'], w['set_index_out'], w['clk_pulse'], w['start_resp'])
    return w


def hexval(ch):
    """numeric value of an upper-case hex digit character (z3 8-bit term -> 8-bit term)"""
    return z3.If(z3.ULE(ch, ord('9')), ch - ord('0'), ch - ord('A') + 10)


def is_hex(ch):
    return z3.Or(z3.And(z3.UGE(ch, ord('0')), z3.ULE(ch, ord('9'))), z3.And(z3.UGE(ch, ord('A')), z3.ULE(ch, ord('F'))))


def run_req(cmds, delays, values=None, rec=None, iw=8, vw=16, stop_when_consumed=None, keep=False):
    """cmds: list of (kind, ndigits) with kind in I,V,O,K (V = '<v>!').  Digits are symbolic
    (or taken from `values`).  delays: idle cycles before each character (cycled)."""
    with quiet():
        s = py4hw.HWSystem()
        w = build_req(s, iw, vw)
        if values is None:
            symsim.instrument(s, rec)
        sim = s.getSimulator()
    vars_ = {}
    chars = []          # (char value, tag)
    numbers = []
    di = 0
    for ci, (kind, nd) in enumerate(cmds):
        if kind in 'IOK':
            chars.append((ord(kind), None))
        digs = []
        for k in range(nd if isinstance(nd, int) else 0):
            name = 'd%d_%d' % (ci, k)
            if values is None:
                x, v = core.fresh(name, 8)
                vars_[name] = v
                ctx.assume(is_hex(v))
                digs.append(v)
                chars.append((x, name))
            else:
                digs.append(values[name])
                chars.append((values[name], name))
        if isinstance(nd, str):
            # a command with fixed digits (e.g. K2; in the middle of a sequence, so that the handshake stays data independent)
            digs = [z3.BitVecVal(ord(ch), 8) for ch in nd]
            chars.extend((ord(ch), None) for ch in nd)
        numbers.append(digs)
        chars.append((ord({'I': '=', 'V': '!', 'O': '?', 'K': ';'}[kind]), None))
    trace = []
    pos = 0
    wait = delays[0] if delays else 0
    horizon = 40 + sum(6 + (d if True else 0) for d in [delays[i % len(delays)] if delays else 0 for i in range(len(chars))]) + 8 * len(chars) \
        + sum(40 for k, nd in cmds if k == 'K')
    for t in range(horizon):
        if pos < len(chars) and wait == 0:
            w['valid'].put(1)
            w['c'].put(chars[pos][0])
        else:
            w['valid'].put(0)
            w['c'].put(0)
        rdy = w['ready'].get()
        vld = w['valid'].get()
        if core.is_sym(rdy):
            if pos < len(chars):
                raise core.Unsupported('decoder ready became data dependent while characters are pending')
            rdy = 0
        with quiet():
            sim.clk(1)
        if wait > 0:
            wait -= 1
        if vld == 1 and rdy == 1:
            pos += 1
            if pos < len(chars) and delays:
                wait = delays[pos % len(delays)]
        trace.append({n: w[n].get() for n in OUTS})
        if stop_when_consumed is not None and pos == len(chars):
            stop_when_consumed -= 1
            if stop_when_consumed < 0:
                break
    if keep:
        run_req.last = {'dut': s.children['dut'], 'w': w}
    return trace, vars_, numbers, pos, len(chars)


def number_term(digs, width):
    n = 4 * len(digs) + 4
    t = z3.BitVecVal(0, n)
    for d in digs:
        t = (t << 4) | zx(hexval(d), n)
    return z3.Extract(width - 1, 0, zx(t, max(n, width)))


def number_conc(digs):
    v = 0
    for d in digs:
        v = (v << 4) | int(chr(d), 16)
    return v


def req_task(p, cfg, rec):
    cmds, delays = cfg['cmds'], cfg['delays']
    iw, vw = 8, 16
    try:
        trace, vars_, numbers, pos, nchars = run_req(cmds, delays, rec=rec, iw=iw, vw=vw)
    except core.Unsupported as e:
        if 'data dependent' not in str(e):
            raise
        # for well-formed commands the decoder's handshake must not depend on WHICH hex digit is sent; when it does, the symbolic
        # run cannot go on - every digit value is then tried concretely, position by position (the other digits fixed), and the
        # decoded events are compared with the command text: a digit that is treated differently from the others shows up here
        slots = [(ci, k) for ci, (kind, nd) in enumerate(cmds) if isinstance(nd, int) for k in range(nd)]
        bad = None
        tried = 0
        for fill in '5A':
            for (ci, k) in slots:
                for ch in '0123456789ABCDEF':
                    values = {'d%d_%d' % (c2, k2): ord(fill) for (c2, k2) in slots}
                    values['d%d_%d' % (ci, k)] = ord(ch)
                    tr, _, nums, ps, nch = run_req(cmds, delays, values=values, iw=iw, vw=vw)
                    exp = expected_events(cmds, [digits_of(values, c3, nd3) for c3, (kind3, nd3) in enumerate(cmds)], iw, vw)
                    got = observed_events(tr)
                    tried += 1
                    if got != exp and bad is None:
                        bad = {'commands': render(cmds, values), 'expected_events': exp, 'observed_events': got}
        p.res['transitions'] += tried
        p.structural('the handshake became data dependent (%s): every hex digit in every position decodes to the transmitted number (%d concrete command strings)'
                     % (e, tried), bad is None, detail=bad)
        return
    p.assumptions = list(ctx.assumptions)
    p.res['states'] += 1
    p.res['transitions'] += len(trace)
    p.structural('all %d characters are consumed within the horizon' % nchars, pos == nchars, detail={'consumed': pos})

    def pulses(name):
        r = []
        for t, st in enumerate(trace):
            v = st[name]
            if core.is_sym(v):
                raise core.Unsupported('%s became data dependent' % name)
            if v == 1:
                r.append(t)
        return r

    def replay(values):
        tr, _, nums, ps, nch = run_req(cmds, delays, values=values, iw=iw, vw=vw)
        exp = expected_events(cmds, [digits_of(values, ci, nd) for ci, (kind, nd) in enumerate(cmds)], iw, vw)
        got = observed_events(tr)
        return None if got == exp else {'commands': render(cmds, values), 'expected_events': exp, 'observed_events': got}
    # expected number of pulses per line
    kinds = [k for k, nd in cmds]
    want = {'set_index_in': kinds.count('I'), 'set_v_in': kinds.count('V'), 'set_index_out': kinds.count('O'), 'start_resp': kinds.count('O')}
    got = {n: pulses(n) for n in want}
    for n in want:
        p.structural('%s pulses exactly %d time(s)' % (n, want[n]), len(got[n]) == want[n], detail={'pulse cycles': got[n], 'commands': [k for k in kinds]})
    idx = {'I': 0, 'V': 0, 'O': 0}
    for ci, (kind, nd) in enumerate(cmds):
        if kind == 'K':
            continue
        line, data, width = {'I': ('set_index_in', 'index_in', iw), 'V': ('set_v_in', 'v_in', vw), 'O': ('set_index_out', 'index_out', iw)}[kind]
        k = idx[kind]
        idx[kind] += 1
        if k >= len(got[line]):
            continue
        t = got[line][k]
        val = trace[t][data]
        expt = number_term(numbers[ci], width)
        from .seq import neq
        p.prove('command %d (%s, %s digits): %s carries the transmitted number at its pulse' % (ci, kind, nd, data), neq(val, expt),
                inputs=vars_, replay=replay, canary=neq(val, expt ^ 1))
        if kind == 'O':
            sr = got['start_resp']
            p.structural('command %d: start_resp follows set_index_out' % ci, k < len(sr) and sr[k] > t, detail={'set_index_out': t, 'start_resp': sr})
    # K commands: number of clock pulses equals n (symbolic digit, n <= 4 assumed by the config)
    if 'K' in kinds:
        tot = 0
        for st in trace:
            tot = tot + st['clk_pulse']
        ncmd = [ci for ci, (k, nd) in enumerate(cmds) if k == 'K']
        expn = 0
        for ci in ncmd:
            expn = expn + core.mk(z3.ZeroExt(1, number_term(numbers[ci], 16)), 0, 65535)
        c = (tot != expn)
        c = z3.BoolVal(c) if isinstance(c, bool) else c.b
        p.prove('K commands: total number of clock pulses equals the transmitted count(s)', c, inputs=vars_, replay=replay)


def expected_events(cmds, digs, iw, vw):
    ev = []
    for (kind, nd), d in zip(cmds, digs):
        n = number_conc(d)
        if kind == 'I':
            ev.append(('set_index_in', n & ((1 << iw) - 1)))
        elif kind == 'V':
            ev.append(('set_v_in', n & ((1 << vw) - 1)))
        elif kind == 'O':
            ev.append(('set_index_out', n & ((1 << iw) - 1)))
            ev.append(('start_resp', None))
        else:
            ev.extend([('clk_pulse', None)] * n)
    return ev


def observed_events(trace):
    ev = []
    prev = {n: 0 for n in OUTS}
    for st in trace:
        for line, data in (('set_index_in', 'index_in'), ('set_v_in', 'v_in'), ('set_index_out', 'index_out')):
            if st[line] == 1:
                ev.append((line, st[data]))
        if st['start_resp'] == 1:
            ev.append(('start_resp', None))
        if st['clk_pulse'] == 1:
            ev.append(('clk_pulse', None))
    return ev


def digits_of(values, ci, nd):
    if isinstance(nd, str):
        return [ord(ch) for ch in nd]
    return [values['d%d_%d' % (ci, k)] for k in range(nd)]


def render(cmds, values):
    s = ''
    for ci, (kind, nd) in enumerate(cmds):
        ds = ''.join(chr(x) for x in digits_of(values, ci, nd))
        s += {'I': 'I%s=', 'V': '%s!', 'O': 'O%s?', 'K': 'K%s;'}[kind] % ds
    return s


def kcount_task(p, cfg, rec):
    """K<n>; with a symbolic single digit, n <= nmax"""
    nmax, delays = cfg['nmax'], cfg['delays']
    cmds = [('K', 1)]
    with quiet():
        pass
    # assumption on the digit must exist before simulation (keeps the loop bounded)
    ctx.reset()
    d0 = z3.BitVec('d0_0', 8)
    ctx.assume(z3.And(z3.UGE(d0, ord('0')), z3.ULE(d0, ord('0') + nmax)))
    trace, vars_, numbers, pos, nchars = run_req(cmds, delays, rec=rec)
    p.assumptions = list(ctx.assumptions)
    tot = 0
    for st in trace:
        tot = tot + st['clk_pulse']
    expn = core.mk(z3.ZeroExt(1, number_term(numbers[0], 16)), 0, 65535)
    c = (tot != expn)
    c = z3.BoolVal(c) if isinstance(c, bool) else c.b

    def replay(values):
        tr, _, nums, ps, nch = run_req(cmds, delays, values=values)
        n = number_conc([values['d0_0']])
        got = sum(st['clk_pulse'] for st in tr)
        return None if got == n else {'command': render(cmds, values), 'pulses': got, 'expected': n}
    p.prove('K<n>; produces exactly n clock pulses for every n <= %d' % nmax, c, inputs=vars_, replay=replay)
    # pulses are separated (each is a full 1 then 0)
    last = trace[-1]['clk_pulse']
    z = (last != 0)
    p.prove('clk_pulse is low at the end', z3.BoolVal(z) if isinstance(z, bool) else z.b, inputs=vars_, replay=replay)
    p.res['states'] += 1
    p.res['transitions'] += len(trace)


# ---------------------------------------------------------------------------------------------------
def run_resp(size, vw, horizon, values=None, rec=None, change=False, szw=3, ready_free=None):
    with quiet():
        s = py4hw.HWSystem()
        vin, sz, sr = s.wire('vin', vw), s.wire('size', szw), s.wire('start_resp')
        ready, valid, v = s.wire('ready'), s.wire('valid'), s.wire('v', 8)
        CMDResponse(s, 'dut', vin, sz, sr, ready, valid, v)
        if values is None:
            symsim.instrument(s, rec)
        sim = s.getSimulator()
    vars_ = {}
    if values is None:
        x, xv = core.fresh('vin', vw)
        vars_['vin'] = xv
    else:
        x, xv = values['vin'], None
    vin.put(x)
    sz.put(size)
    if change:
        # the selected value is replaced (another output gets selected) right after the response was started
        if values is None:
            x2, xv2 = core.fresh('vin2', vw)
            vars_['vin2'] = xv2
        else:
            x2 = values.get('vin2', 0)
    log = []
    for t in range(horizon):
        sr.put(1 if t == 1 else 0)
        if change and t == 2:
            vin.put(x2)
        if ready_free is not None and t >= ready_free:
            rv = z3.BoolVal(True) if values is None else 1        # consumer always ready from here on
            if values is None:
                vars_['ready_%d' % t] = rv
            ready.put(1)
        elif values is None:
            rb, rv = core.fresh_bool('ready_%d' % t)
            vars_['ready_%d' % t] = rv
            ready.put(core.ite(rb, 1, 0))
        else:
            rv = values.get('ready_%d' % t, 0)
            ready.put(rv)
        log.append((valid.get(), v.get(), rv))
        with quiet():
            sim.clk(1)
    return log, vars_, xv


def resp_task(p, cfg, rec):
    size, vw, horizon, tail = cfg['size'], cfg['vw'], cfg['horizon'], cfg['tail']
    change = cfg.get('change', False)
    szw, ready_free = cfg.get('szw', 3), cfg.get('ready_free')
    log, vars_, xv = run_resp(size, vw, horizon, rec=rec, change=change, szw=szw, ready_free=ready_free)
    p.res['states'] += 1
    p.res['transitions'] += horizon
    # expected character sequence
    exp = [z3.BitVecVal(ord('='), 8)]
    X = zx(xv, max(vw, 4 * size))
    for k in reversed(range(size)):
        nib = z3.Extract(3, 0, z3.LShR(X, 4 * k))
        exp.append(z3.If(z3.ULE(nib, 9), zx(nib, 8) + ord('0'), zx(nib, 8) + (ord('A') - 10)))
    exp.append(z3.BitVecVal(ord('!'), 8))
    n = len(exp)
    cnt = 0
    viol = []
    for t, (vld, ch, rv) in enumerate(log):
        hs = z3.And(core.as_z3_bool(vld == 1) if core.is_sym(vld) else z3.BoolVal(vld == 1), rv)
        e = z3.BitVecVal(0, 8)
        for k in reversed(range(n)):
            ck = (cnt == k)
            e = z3.If(z3.BoolVal(ck) if isinstance(ck, bool) else ck.b, exp[k], e)
        from .seq import neq
        over = (cnt >= n)
        over = z3.BoolVal(over) if isinstance(over, bool) else over.b
        viol.append(z3.And(hs, z3.Or(over, neq(ch, e))))
        cnt = core.simplify_value(core.ite(hs, cnt + 1, cnt))

    def replay(values):
        lg, _, _ = run_resp(size, vw, horizon, values=values, change=change, szw=szw, ready_free=ready_free)
        chars = [c for (vld, c, r) in lg if vld == 1 and r]
        want = '=' + ('%0*X' % (size, values['vin'] & ((1 << (4 * size)) - 1))) + '!'
        got = ''.join(chr(c) if 32 <= c < 127 else '\\x%02x' % c for c in chars)
        tail_ready = all(values.get('ready_%d' % t, 0) for t in range(horizon - tail, horizon))
        if got == want or (want.startswith(got) and not tail_ready):
            return None
        return {'vin': hex(values['vin']), 'vin after the start': hex(values.get('vin2', values['vin'])), 'size': size, 'transferred': got, 'expected': want,
                'ready_pattern': ''.join(str(values.get('ready_%d' % t, 0)) for t in range(horizon))}
    p.prove('every character transferred on valid&&ready is the next character of "=<%d hex digits>!" and nothing follows' % size,
            z3.Or(*viol), inputs=vars_, replay=replay, timeout_s=(120 if p.tier == 'quick' else 900))
    # bounded liveness: with ready high during the last `tail` cycles the whole message has been transferred
    tail_ready = z3.And(*[vars_['ready_%d' % t] for t in range(horizon - tail, horizon)])
    fin = (cnt != n)
    fin = z3.BoolVal(fin) if isinstance(fin, bool) else fin.b
    p.prove('with ready high in the last %d cycles all %d characters have been transferred' % (tail, n), z3.And(tail_ready, fin),
            inputs=vars_, replay=replay, canary=tail_ready, timeout_s=(120 if p.tier == 'quick' else 900))


def _vb(x):
    return z3.BoolVal(x) if isinstance(x, bool) else core.as_z3_bool(x)


def kdecode_task(p, cfg, rec):
    """K<h..h>; with nd symbolic hex digits: when the terminator has been consumed the decoder sits in its burst state with the
    burst counter equal to the transmitted number (exact integer, no mask) and no pulse given yet.  Together with kburst_task
    (induction on the counter) this gives 'exactly n pulses' for every n the digits can express."""
    nd, delays = cfg['nd'], cfg['delays']
    cmds = [('K', nd)]
    trace, vars_, numbers, pos, nchars = run_req(cmds, delays, rec=rec, stop_when_consumed=1, keep=True)
    dut = run_req.last['dut']
    p.assumptions = list(ctx.assumptions)
    p.res['states'] += 1
    p.res['transitions'] += len(trace)
    p.structural('all %d characters are consumed within the horizon' % nchars, pos == nchars, detail={'consumed': pos})
    want = core.mk(z3.ZeroExt(1, number_term(numbers[0], 4 * nd)), 0, (1 << (4 * nd)) - 1)

    def replay(values):
        tr, _, nums, ps, nch = run_req(cmds, delays, values=values, stop_when_consumed=1, keep=True)
        d = run_req.last['dut']
        n = number_conc(digits_of(values, 0, nd))
        ok = d.state == 8 and d.temp == n and not any(st['clk_pulse'] for st in tr) and run_req.last['w']['ready'].get() == 0
        return None if ok else {'command': render(cmds, values), 'state': d.state, 'burst counter': d.temp, 'expected': n,
                                'pulses before the burst': sum(st['clk_pulse'] for st in tr)}
    p.prove('K<%dh>; one edge after the terminator was consumed the decoder is in its burst state' % nd, _vb(dut.state != 8), inputs=vars_, replay=replay)
    p.prove('K<%dh>; the burst counter equals the transmitted number when the burst starts' % nd, _vb(dut.temp != want), inputs=vars_, replay=replay,
            canary=_vb(dut.temp != want + 1))
    tot = 0
    for st in trace:
        tot = tot + st['clk_pulse']
    p.prove('K<%dh>; no clock pulse before the burst starts' % nd, _vb(tot != 0), inputs=vars_, replay=replay)
    p.prove('K<%dh>; ready is low when the burst starts (no character can be consumed during the burst)' % nd,
            _vb(run_req.last['w']['ready'].get() != 0), inputs=vars_, replay=replay)


def _burst_system(T, values=None, rec=None):
    with quiet():
        s = py4hw.HWSystem()
        w = build_req(s)
        if values is None:
            symsim.instrument(s, rec)
        sim = s.getSimulator()
    dut = s.children['dut']
    dut.state = 8
    dut.temp = T
    for n in OUTS + ['ready']:
        w[n].value = 0
    w['valid'].put(0)
    w['c'].put(0)
    return s, w, sim, dut


def kburst_task(p, cfg, rec):
    """induction on the burst counter: from the burst state (state 8, ready and clk_pulse low) with an ARBITRARY counter value T,
    T == 0 ends the burst without a pulse; T > 0 gives one full pulse (high for one cycle, then low), comes back to the burst state
    with T-1 and ready still low.  Hence a burst entered with counter n gives exactly n pulses, for every n < 2**bits."""
    bits = cfg['bits']
    T, tv = core.fresh('T', bits)
    vars_ = {'T': tv}
    s, w, sim, dut = _burst_system(T, rec=rec)
    p.assumptions = list(ctx.assumptions)
    snaps = []
    for k in range(4):
        with quiet():
            sim.clk(1)
        snaps.append({'state': dut.state, 'temp': dut.temp, 'clk_pulse': w['clk_pulse'].get(), 'ready': w['ready'].get(),
                      'others': [w[n].get() for n in ('set_index_in', 'set_v_in', 'set_index_out', 'start_resp')]})
    p.res['states'] += 1
    p.res['transitions'] += 4

    def replay(values):
        t = values['T']
        s2, w2, sim2, d2 = _burst_system(t, values=values)
        obs = []
        for k in range(4):
            with quiet():
                sim2.clk(1)
            obs.append((d2.state, d2.temp, w2['clk_pulse'].get(), w2['ready'].get()))
        if t == 0:
            ok = obs[0][0] == 4 and all(o[2] == 0 for o in obs) and obs[0][3] == 0
        else:
            ok = obs[0] == (9, t - 1, 1, 0) and obs[1] == (8, t - 1, 0, 0)
        return None if ok else {'burst counter': t, '(state, counter, clk_pulse, ready) after edges 1..4': obs}
    nz = tv != 0
    a, b = snaps[0], snaps[1]
    AND, NOT = z3.And, z3.Not
    p.prove('burst, counter > 0: first edge raises clk_pulse, decrements the counter, goes to the low phase, ready stays low',
            AND(nz, z3.Or(_vb(a['clk_pulse'] != 1), _vb(a['state'] != 9), _vb(a['temp'] != T - 1), _vb(a['ready'] != 0))), inputs=vars_, replay=replay,
            canary=AND(nz, _vb(a['temp'] != T)))
    p.prove('burst, counter > 0: second edge lowers clk_pulse and returns to the burst state with counter - 1, ready still low',
            AND(nz, z3.Or(_vb(b['clk_pulse'] != 0), _vb(b['state'] != 8), _vb(b['temp'] != T - 1), _vb(b['ready'] != 0))), inputs=vars_, replay=replay)
    any_pulse = z3.Or([_vb(x['clk_pulse'] != 0) for x in snaps])
    p.prove('burst, counter == 0: the burst ends (reset-temp state) and clk_pulse stays low for the following edges',
            AND(NOT(nz), z3.Or(_vb(a['state'] != 4), any_pulse)), inputs=vars_, replay=replay)
    other = z3.Or([_vb(v != 0) for x in snaps[:2] for v in x['others']])
    p.prove('burst: no other action line moves during a pulse', AND(nz, other), inputs=vars_, replay=replay)


def tasks_for(tier):
    quick = tier == 'quick'
    t = []
    delay_sets = [(0,), (1,), (0, 3, 1)] if quick else [(0,), (1,), (2,), (0, 3, 1), (5, 0, 0, 2), (7,)]
    singles = [[('I', n)] for n in (1, 2)] + [[('V', n)] for n in (1, 2, 3, 4)] + [[('O', n)] for n in (1, 2)]
    doubles = [[('I', 1), ('V', 2)], [('I', 2), ('V', 4)], [('O', 1), ('I', 1)], [('V', 3), ('O', 2)], [('V', 1), ('V', 2)]]
    # a store that reuses the input selected earlier, after an output request / after clock pulses / after another store
    doubles += [[('O', 1), ('V', 2)], [('K', '2'), ('V', 2)], [('I', 1), ('V', 1), ('O', 1), ('V', 2)], [('I', 1), ('V', 2), ('K', '1'), ('V', 2), ('O', 1)],
                [('K', '3'), ('I', 1), ('K', '0'), ('O', 1)],
                # the SAME output requested again (directly, and with other commands in between): every request pulses the selection
                [('O', '1'), ('O', '1')], [('O', '2A'), ('K', '1'), ('O', '2A')], [('O', '7'), ('I', 1), ('V', 2), ('O', '7')], [('I', '3'), ('I', '3')]]
    if not quick:
        doubles += [[('I', 1), ('V', 4), ('O', 1)], [('O', 2), ('O', 1)], [('I', 2), ('I', 1)], [('V', 4), ('V', 4)]]
    for cmds in singles + doubles:
        for dl in delay_sets:
            nm = ' '.join(({'I': 'I<%dh>=', 'V': '<%dh>!', 'O': 'O<%dh>?', 'K': 'K<%dh>;'}[k] % nd) if isinstance(nd, int) else
                          ({'I': 'I%s=', 'V': '%s!', 'O': 'O%s?', 'K': 'K%s;'}[k] % nd) for k, nd in cmds)
            t.append(('CMDRequest %s delays %s' % (nm, ','.join(map(str, dl))), req_task, {'cmds': cmds, 'delays': list(dl)}))
    for dl in delay_sets[:2 if quick else 4]:
        t.append(('CMDRequest K<1h>; n<=4 symbolic delays %s' % ','.join(map(str, dl)), kcount_task, {'nmax': 4, 'delays': list(dl)}))
    if not quick:
        t.append(('CMDRequest K<1h>; n<=9 symbolic delays 0', kcount_task, {'nmax': 9, 'delays': [0]}))
    # K<n>; for every n: decode up to the start of the burst (symbolic digits) + induction on the burst counter
    for nd in ((1, 2, 3, 4) if quick else (1, 2, 3, 4, 5, 6, 8)):
        for dl in delay_sets[:2 if quick else 4]:
            t.append(('CMDRequest K<%dh>; decode up to the burst, delays %s' % (nd, ','.join(map(str, dl))), kdecode_task, {'nd': nd, 'delays': list(dl)}))
    for bits in ((16, 32) if quick else (4, 16, 32, 64)):
        t.append(('CMDRequest clock burst: induction on a %d-bit burst counter' % bits, kburst_task, {'bits': bits}))
    for size in (1, 2, 3, 4):
        for vw in ((16,) if quick else (8, 16, 32)):
            hz = 8 + 4 * (size + 2) if quick else 14 + 5 * (size + 2)
            t.append(('CMDResponse size %d vin %d bits, symbolic ready per cycle, horizon %d' % (size, vw, hz), resp_task,
                      {'size': size, 'vw': vw, 'horizon': hz, 'tail': 3 * (size + 2) + 3}))
    # more digits than the value has (the wrapper's size wire is 8 bits wide): symbolic ready for the first cycles, then always ready
    for size, vw in (((9, 32), (16, 32)) if quick else ((8, 32), (9, 32), (12, 32), (16, 32), (17, 64), (33, 32))):
        hz = 10 + 3 * (size + 2) + 6
        t.append(('CMDResponse size %d vin %d bits, 8-bit size wire, symbolic ready for 10 cycles then always ready, horizon %d' % (size, vw, hz), resp_task,
                  {'size': size, 'vw': vw, 'horizon': hz, 'tail': hz - 10, 'szw': 8, 'ready_free': 10}))
    for size in ((2, 4) if quick else (1, 2, 3, 4)):
        hz = 8 + 4 * (size + 2) if quick else 14 + 5 * (size + 2)
        t.append(('CMDResponse size %d vin 16 bits replaced by another value right after the start, symbolic ready per cycle, horizon %d' % (size, hz), resp_task,
                  {'size': size, 'vw': 16, 'horizon': hz, 'tail': 3 * (size + 2) + 3, 'change': True}))
    return t


def main(argv=None):
    args = common.parse_args(PROP, argv)
    return common.run_check(
        PROP, 'model_checking', tasks_for(args.tier), args, design_ref='DESIGN.md section 3 (C20)',
        technique='symbolic execution of the real CMDRequest/CMDResponse clock() under the real simulator (BMC) with symbolic hex-digit characters, values and consumer ready; z3 QF_BV',
        assumptions=['digits are upper-case hexadecimal characters (well-formed commands)', 'index wires 8 bit, value wire 16 bit: numbers are compared modulo the wire width',
                     'a character is consumed at an edge with ready and valid high; producer pacing from enumerated delay patterns',
                     'K<n>;: bounded runs with symbolic n <= 4 (9 thorough); every n by kdecode_task (burst counter == transmitted number when the burst starts) + kburst_task (induction on the counter); response liveness under "ready high during the last cycles of the horizon"'],
        bounds={'digits': '1..4 per number', 'commands': '1..2 per run (3 thorough)', 'response': 'size 1..4 (and 9, 16 digits with an 8-bit size wire; thorough also 8, 12, 17, 33), value 16 bits (8/16/32 thorough), ready symbolic for every cycle of the horizon; also with the value wire replaced by a second symbolic value in the cycle after the start pulse (the response must still carry the value selected at the start)'},
        trusted_base=['z3', 'symx operator semantics and fork-and-merge shell', 'monitors in checks/c20.py'], task_limit=1500)


if __name__ == '__main__':
    sys.exit(main())
