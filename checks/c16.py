"""
C16 -- AXI4-Stream adapters never lose, duplicate or corrupt a beat.

The real Axi2Reg / Reg2Axi run under the real simulator from a symbolic pre-state (all
registers), with every control/handshake/data input fresh each cycle, constrained only by the
stated environment assumption.  Obligations: (i) a protocol-level reference machine
(registers = ghost monitor: active, have-beat/last-beat, pending-valid, captured value, sent)
matches after one step from ANY invariant state and over a BMC from power-up; (ii) the clauses
of the statement as separate one-step obligations.
"""
import math
import sys

import z3

from . import common
from .comb import quiet, zx
from .seq import seq_task, find, state_vars, load_state, read_state, _setup, neq, concrete_run
from symx import core, symsim
from symx.core import ctx

import py4hw
import py4hw.logic.bus.axi as axi
from py4hw.emulation.vitiswrapping import Axi2Reg, Reg2Axi

PROP = 'C16'


def bv(v, w):
    return z3.BitVecVal(v, w)


def one(c):
    return z3.If(c, bv(1, 1), bv(0, 1))


def axi2reg_cfg(qw, dw):
    def build(s):
        st = axi.AXI4StreamInterface(s, 'st', dw, has_tlast=True, has_tkeep=True)
        ap_start, ap_reset, ap_done = s.wire('ap_start'), s.wire('ap_reset'), s.wire('ap_done')
        q, loaded, active = s.wire('q', qw), s.wire('loaded'), s.wire('active')
        dut = Axi2Reg(s, 'dut', ap_start, ap_reset, ap_done, st, q, loaded, active)
        return {'ins': {'ap_start': ap_start, 'ap_reset': ap_reset, 'ap_done': ap_done, 'tvalid': st.tvalid, 'tdata': st.tdata},
                'outs': {'q': q, 'loaded': loaded, 'active': active, 'tready': st.tready},
                'regs': {'data': find(dut, 'reg_data'), 'loaded': find(dut, 'loaded'), 'active': find(dut, 'active')}}

    def nxt(S, I):
        act = S['active'] == 1
        transfer = z3.And(act, I['tvalid'] == 1)                     # tready == active
        clear = z3.Or(I['ap_reset'] == 1, I['ap_done'] == 1, z3.And(z3.Not(act), I['ap_start'] == 1))
        return {
            'data': z3.If(clear, bv(0, qw), z3.If(transfer, z3.Extract(qw - 1, 0, I['tdata']), S['data'])),
            'loaded': z3.If(clear, bv(0, 1), z3.If(transfer, bv(1, 1), S['loaded'])),
            'active': z3.If(z3.Or(I['ap_reset'] == 1, I['ap_done'] == 1), bv(0, 1), z3.If(I['ap_start'] == 1, bv(1, 1), S['active'])),
        }

    def out(S, I):
        return {'q': S['data'], 'loaded': S['loaded'], 'active': S['active'], 'tready': S['active']}

    def assume(S, I):
        # done is only signalled after a completed transfer
        return z3.Implies(I['ap_done'] == 1, S['loaded'] == 1)
    return {'build': build, 'init': {}, 'next': nxt, 'out': out, 'assume': assume, 'bmc': None}


def reg2axi_cfg(W, dw):
    keep = (1 << math.ceil(W / 8)) - 1

    def build(s):
        st = axi.AXI4StreamInterface(s, 'st', dw, has_tlast=True, has_tkeep=True)
        ap_start, ap_reset, ap_done, load = s.wire('ap_start'), s.wire('ap_reset'), s.wire('ap_done'), s.wire('load_outs')
        reg_in, sent, active = s.wire('reg_in', W), s.wire('sent'), s.wire('active')
        dut = Reg2Axi(s, 'dut', ap_start, ap_reset, ap_done, load, reg_in, st, sent, active)
        return {'ins': {'ap_start': ap_start, 'ap_reset': ap_reset, 'ap_done': ap_done, 'load_outs': load, 'reg_in': reg_in,
                        'tready': st.tready},
                'outs': {'tvalid': st.tvalid, 'tdata': st.tdata, 'tlast': st.tlast, 'tkeep': st.tkeep, 'sent': sent, 'active': active},
                'regs': {'tvalid': find(dut, 'tvalid'), 'tdata': find(dut, 'tdata_ext'), 'sent': find(dut, 'sent'),
                         'active': find(dut, 'active')}}

    def nxt(S, I):
        act = S['active'] == 1
        accepted = z3.And(act, S['tvalid'] == 1, I['tready'] == 1)
        load = z3.And(I['load_outs'] == 1, act)
        restart = z3.And(z3.Not(act), I['ap_start'] == 1)
        return {
            'tvalid': z3.If(z3.Or(I['ap_reset'] == 1, accepted), bv(0, 1), z3.If(load, bv(1, 1), S['tvalid'])),
            'tdata': z3.If(load, zx(I['reg_in'], dw), S['tdata']),
            'sent': z3.If(z3.Or(I['ap_reset'] == 1, I['ap_done'] == 1, restart), bv(0, 1), z3.If(accepted, bv(1, 1), S['sent'])),
            'active': z3.If(z3.Or(I['ap_reset'] == 1, I['ap_done'] == 1), bv(0, 1), z3.If(I['ap_start'] == 1, bv(1, 1), S['active'])),
        }

    def out(S, I):
        return {'tvalid': S['tvalid'], 'tdata': S['tdata'], 'tlast': S['tvalid'], 'tkeep': bv(keep, dw // 8), 'sent': S['sent'],
                'active': S['active']}

    def assume(S, I):
        # invariant: a pending beat implies the adapter is active;
        # environment: done only when no beat is pending or being loaded (i.e. after the transfer completed)
        return z3.And(z3.Implies(S['tvalid'] == 1, S['active'] == 1),
                      z3.Implies(I['ap_done'] == 1, z3.And(S['tvalid'] == 0, I['load_outs'] == 0)))
    return {'build': build, 'init': {}, 'next': nxt, 'out': out, 'assume': assume, 'bmc': None, 'keep': keep}


def clause_task(p, cfg, rec):
    """the clauses of the statement as separate one-step obligations from any invariant state"""
    kind = cfg['kind']
    s, d = _setup(cfg, rec)
    with quiet():
        sim = s.getSimulator()
    S = state_vars(d, 's_')
    load_state(d, S)
    Iw = symsim.poke_fresh(list(d['ins'].values()), 'i_')
    I = {n: Iw[w] for n, w in d['ins'].items()}
    if kind != 'reg2axi-any':
        p.assume(cfg['assume'](S, I))
    with quiet():
        sim.propagateAll()
    pre_out = {n: w.get() for n, w in d['outs'].items()}
    with quiet():
        sim.clk(1)
    post = read_state(d)
    post_out = {n: w.get() for n, w in d['outs'].items()}
    allv = dict(('s:' + k, v) for k, v in S.items())
    allv.update(('i:' + k, v) for k, v in I.items())
    T1 = lambda v: core.as_z3_bool(v != 0) if core.is_sym(v) else z3.BoolVal(bool(v))

    def replay(values):
        st = {k: values['s:' + k] for k in S}
        inp = {k: values['i:' + k] for k in I}
        tr = concrete_run(cfg, [inp], init_state=st)
        return {'from_state': st, 'inputs': inp, 'outs_before': tr[0][0], 'outs_after': tr[1][0], 'state_after': {k: int(v) for k, v in tr[1][1].items()}}
    if kind == 'axi2reg':
        qw = d['outs']['q'].getWidth()
        p.prove('READY is asserted exactly while active (before the edge)', T1(pre_out['tready']) != T1(pre_out['active']), inputs=allv, replay=replay)
        p.prove('READY is asserted exactly while active (after the edge)', T1(post_out['tready']) != T1(post_out['active']), inputs=allv, replay=replay)
        transfer = z3.And(S['active'] == 1, I['tvalid'] == 1)
        clear = z3.Or(I['ap_reset'] == 1, I['ap_done'] == 1, z3.And(S['active'] == 0, I['ap_start'] == 1))
        p.prove('a beat transferred while active is captured with loaded set (unless cleared in the same cycle)',
                z3.And(transfer, z3.Not(clear), z3.Or(neq(post['data'], z3.Extract(qw - 1, 0, I['tdata'])), z3.Not(T1(post['loaded'])))),
                inputs=allv, replay=replay, canary=z3.And(transfer, z3.Not(clear)))
        p.prove('without transfer or clear the captured beat and loaded flag are held',
                z3.And(z3.Not(transfer), z3.Not(clear), z3.Or(neq(post['data'], S['data']), neq(post['loaded'], S['loaded']))),
                inputs=allv, replay=replay)
        p.prove('loaded is cleared by reset, done or a restart', z3.And(clear, T1(post['loaded'])), inputs=allv, replay=replay,
                canary=clear)
        p.prove('a beat offered while inactive is not captured', z3.And(S['active'] == 0, I['tvalid'] == 1, z3.Not(clear),
                                                                      z3.Or(neq(post['data'], S['data']), neq(post['loaded'], S['loaded']))),
                inputs=allv, replay=replay)
    elif kind == 'reg2axi-any':
        # no environment assumption and no invariant: ANY register state (also a beat pending while inactive,
        # which a done pulse during a stalled second beat produces) and any control/handshake inputs
        dw = d['outs']['tdata'].getWidth()
        act = S['active'] == 1
        accepted = z3.And(act, S['tvalid'] == 1, I['tready'] == 1)
        load = z3.And(I['load_outs'] == 1, act)
        p.prove('reset clears VALID, sent and active in every state', z3.And(I['ap_reset'] == 1, z3.Or(T1(post['tvalid']), T1(post['sent']), T1(post['active']))),
                inputs=allv, replay=replay, canary=z3.And(I['ap_reset'] == 1, S['tvalid'] == 1, S['active'] == 0))
        p.prove('VALID is not dropped before a beat is accepted or a reset (every state)',
                z3.And(S['tvalid'] == 1, z3.Not(z3.And(S['tvalid'] == 1, I['tready'] == 1)), I['ap_reset'] == 0, z3.Not(T1(post['tvalid']))),
                inputs=allv, replay=replay)
        p.prove('VALID drops in the cycle a beat is accepted while active (every state)',
                z3.And(accepted, z3.Not(load), T1(post['tvalid'])), inputs=allv, replay=replay, canary=accepted)
        p.prove('TDATA changes only on a load pulse while active and then takes the offered value (every state)',
                z3.Or(z3.And(load, neq(post['tdata'], zx(I['reg_in'], dw))), z3.And(z3.Not(load), neq(post['tdata'], S['tdata']))),
                inputs=allv, replay=replay)
        p.prove('LAST equals VALID and KEEP is the constant mask (every state)',
                z3.Or(T1(pre_out['tlast']) != T1(pre_out['tvalid']), T1(post_out['tlast']) != T1(post_out['tvalid']),
                      neq(pre_out['tkeep'], bv(cfg['keep'], dw // 8)), neq(post_out['tkeep'], bv(cfg['keep'], dw // 8))),
                inputs=allv, replay=replay)
        p.prove('sent rises only after a beat accepted while active (every state)', z3.And(S['sent'] == 0, T1(post['sent']), z3.Not(accepted)),
                inputs=allv, replay=replay)
        p.prove('VALID rises only on a load pulse while active (every state)', z3.And(S['tvalid'] == 0, T1(post['tvalid']), z3.Not(load)),
                inputs=allv, replay=replay)
        p.prove('done or reset deactivate, start activates, otherwise active is held (every state)',
                neq(post['active'], z3.If(z3.Or(I['ap_reset'] == 1, I['ap_done'] == 1), bv(0, 1), z3.If(I['ap_start'] == 1, bv(1, 1), S['active']))),
                inputs=allv, replay=replay)
    else:
        dw = d['outs']['tdata'].getWidth()
        accepted = z3.And(S['tvalid'] == 1, I['tready'] == 1)
        p.prove('VALID stays asserted until a beat is accepted or reset',
                z3.And(S['tvalid'] == 1, z3.Not(accepted), I['ap_reset'] == 0, z3.Not(T1(post['tvalid']))), inputs=allv, replay=replay,
                canary=z3.And(S['tvalid'] == 1, z3.Not(accepted), I['ap_reset'] == 0))
        p.prove('VALID drops in the cycle a beat is accepted (no duplicate beat)',
                z3.And(accepted, I['load_outs'] == 0, T1(post['tvalid'])), inputs=allv, replay=replay, canary=accepted)
        load = z3.And(I['load_outs'] == 1, S['active'] == 1)
        p.prove('TDATA offers the value captured by the latest load pulse',
                z3.Or(z3.And(load, neq(post['tdata'], zx(I['reg_in'], dw))), z3.And(z3.Not(load), neq(post['tdata'], S['tdata']))),
                inputs=allv, replay=replay)
        p.prove('a load pulse while active raises VALID (unless reset or an accepted beat in the same cycle)',
                z3.And(load, I['ap_reset'] == 0, z3.Not(accepted), z3.Not(T1(post['tvalid']))), inputs=allv, replay=replay, canary=load)
        p.prove('LAST equals VALID', z3.Or(T1(pre_out['tlast']) != T1(pre_out['tvalid']), T1(post_out['tlast']) != T1(post_out['tvalid'])),
                inputs=allv, replay=replay)
        p.prove('KEEP is the constant byte mask', z3.Or(neq(pre_out['tkeep'], bv(cfg['keep'], dw // 8)), neq(post_out['tkeep'], bv(cfg['keep'], dw // 8))),
                inputs=allv, replay=replay)
        p.prove('sent rises only after an accepted beat', z3.And(S['sent'] == 0, T1(post['sent']), z3.Not(accepted)), inputs=allv, replay=replay)
        p.prove('an accepted beat raises sent (unless cleared in the same cycle)',
                z3.And(accepted, I['ap_reset'] == 0, I['ap_done'] == 0, z3.Not(T1(post['sent']))), inputs=allv, replay=replay)
        p.prove('invariant preserved: pending VALID implies active', z3.And(T1(post['tvalid']), z3.Not(T1(post['active']))), inputs=allv, replay=replay)
    p.res['states'] += 1
    p.res['transitions'] += 1


def tasks_for(tier):
    quick = tier == 'quick'
    t = []
    K = 10 if quick else 20
    for qw, dw in ([(8, 64), (12, 64), (32, 64), (33, 64), (64, 64), (64, 128), (72, 128), (100, 128)] if quick else
                   [(8, 64), (9, 64), (12, 64), (16, 64), (20, 64), (32, 64), (33, 64), (63, 64), (64, 64), (64, 128), (8, 128), (72, 128), (100, 128), (128, 128), (96, 512), (1, 8), (7, 8)]):
        c = axi2reg_cfg(qw, dw)
        c['bmc'] = K
        t.append(('Axi2Reg q%d stream%d reference machine' % (qw, dw), seq_task, c))
        t.append(('Axi2Reg q%d stream%d clauses' % (qw, dw), clause_task, dict(c, kind='axi2reg')))
        c = reg2axi_cfg(qw, dw)
        c['bmc'] = K
        t.append(('Reg2Axi reg%d stream%d reference machine' % (qw, dw), seq_task, c))
        t.append(('Reg2Axi reg%d stream%d clauses' % (qw, dw), clause_task, dict(c, kind='reg2axi')))
        t.append(('Reg2Axi reg%d stream%d clauses from every register state, no environment assumption' % (qw, dw), clause_task, dict(c, kind='reg2axi-any')))
    return t


def main(argv=None):
    args = common.parse_args(PROP, argv)
    return common.run_check(
        PROP, 'model_checking', tasks_for(args.tier), args, design_ref='DESIGN.md section 3 (C16)',
        technique='symbolic execution of the real adapters under the real simulator from a symbolic pre-state (1-step induction with ghost/reference state) plus BMC from power-up with fully symbolic schedules; z3 QF_BV',
        assumptions=['Axi2Reg: ap_done only when a beat has been loaded since activation (loaded == 1)',
                     'Reg2Axi: ap_done only when no beat is pending or being loaded; inductive invariant tvalid => active',
                     'a load pulse counts only while the adapter is active; a transfer is VALID and READY in the same cycle',
                     'the *-any clause set assumes nothing (every register state, every input); there a beat counts as accepted only while the adapter is active: a beat left pending by a done pulse stays offered while inactive (Test_Reg2Axi::test_basic_transmission relies on it) and what the peer does with it in that interval is outside the claim'],
        bounds={'widths': 'q/reg 8,12,32,33,64 on 64/128-bit streams and 72,100 on 128-bit streams (quick) plus 1,7,9,16,20,63,100,128 (thorough): multiples of 8 and widths with a partial top byte', 'history': '1-step induction from any invariant state; BMC 10/20 cycles from power-up'},
        trusted_base=['z3', 'symx operator semantics', 'reference machines / clauses in checks/c16.py'])


if __name__ == '__main__':
    sys.exit(main())
