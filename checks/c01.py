"""
C01 -- generated Verilog behaves exactly like the simulated structural design.

For each design: real VerilogGenerator -> text -> E2 front end (IEEE 1364 two-state semantics)
-> transition system; real simulator on symbols (E1) -> terms; the solver proves equal outputs
at power-up, after each of K edges from power-up (fresh inputs each cycle) and, when all state
is plain registers, one inductive step from any corresponding register state.
"""
import itertools
import random
import sys
import zlib

import z3

from . import common
from .comb import quiet, zx
from . import designs as D
from . import c07, c08, c09
from .vequiv import Equiv, wrap_in_box
from symx import core

import py4hw
from py4hw.logic.storage import Reg, SynchronousMemory, AsynchronousMemory, DualPortSynchronousMemory, Latch, DelayLine
from py4hw.logic.bitwise import *         # noqa
from py4hw.logic.arithmetic import *      # noqa
from py4hw.logic.relational import *      # noqa
from py4hw.logic.protocol.uart.sequencer import MsgSequencer

PROP = 'C01'


def equiv_task(p, cfg, rec):
    K = cfg.get('K', 3 if p.tier == 'quick' else 6)
    eq = Equiv(p, cfg['build'], rec, assume=cfg.get('assume'))
    eq.run(K, induction=cfg.get('induction', True))
    p.res['states'] += 1
    p.res['transitions'] += K


def W(s, n, w=1):
    return s.wire(n, w)


def extra_cfgs(tier):
    """designs aimed at the emission routes: multi-bit selects/enables, reset values, constants,
    hand-written bodies, shared modules, hierarchy and naming"""
    quick = tier == 'quick'
    out = []

    def add(name, build, kind='seq', **kw):
        out.append((name, dict(build=wrap_in_box(build, kind), **kw)))

    # Mux2 with a multi-bit select
    for sw in (1, 2, 3):
        def b(s, sw=sw):
            sel, a, c, r = W(s, 'sel', sw), W(s, 'a', 4), W(s, 'b', 4), W(s, 'r', 4)
            Mux2(s, 'mux', sel, a, c, r)
            return {'sel': sel, 'a': a, 'b': c}, {'r': r}
        add('Mux2 select width %d' % sw, b, 'comb')
    # Reg with multi-bit enable / reset, reset values
    for ew, rw_ in ((1, 1), (2, 1), (1, 2), (2, 2)):
        for rv in (None, 1, 5, -1, 16, 17):
            def b(s, ew=ew, rw_=rw_, rv=rv):
                d, q, e, r = W(s, 'd', 4), W(s, 'q', 4), W(s, 'e', ew), W(s, 'r', rw_)
                leaf = Reg(s, 'reg', d, q, enable=e, reset=r, reset_value=rv)
                return {'ins': {'d': d, 'e': e, 'r': r}, 'outs': {'q': q}}
            add('Reg4 enable%d reset%d reset_value %s' % (ew, rw_, rv), b)
    for rv in (None, 3):
        def b(s, rv=rv):
            d, q = W(s, 'd', 4), W(s, 'q', 4)
            Reg(s, 'reg', d, q, reset_value=rv)
            return {'ins': {'d': d}, 'outs': {'q': q}}
        add('Reg4 plain reset_value %s' % rv, b)
    # d and q of different widths, reset values that are negative / do not fit in d / exceed 32 bits
    for dw, qw, rv in ((4, 8, -3), (4, 8, 200), (8, 4, -3), (8, 4, 9), (4, 40, 1 << 33), (4, 40, -1), (2, 6, 37), (6, 2, 2),
                       (40, 40, -(1 << 35)), (40, 40, -5000000000), (8, 36, -(1 << 31) - 1), (40, 40, (1 << 40) + 3)):
        def b(s, dw=dw, qw=qw, rv=rv):
            d, q, r = W(s, 'd', dw), W(s, 'q', qw), W(s, 'r', 1)
            Reg(s, 'reg', d, q, reset=r, reset_value=rv)
            return {'ins': {'d': d, 'r': r}, 'outs': {'q': q}}
        add('Reg d%d q%d reset_value %s' % (dw, qw, rv), b)
    # constants: in range, negative, oversized
    for w, v in ((4, 5), (4, -1), (4, 16), (4, 21), (1, 1), (8, 255), (8, -128), (33, -1), (36, 1 << 35), (3, 0),
                 (40, -5000000000), (40, -(1 << 39)), (33, -(1 << 32)), (64, -(1 << 63)), (34, -(1 << 31) - 1), (32, -(1 << 31)), (40, (1 << 41) + 5)):
        def b(s, w=w, v=v):
            a, r = W(s, 'a', w), W(s, 'r', w)
            k = W(s, 'k', w)
            Constant(s, 'k', v, k)
            Xor2(s, 'x', a, k, r) if False else And2(s, 'x', a, k, r)
            o = W(s, 'o', w)
            Or2(s, 'o', a, k, o)
            return {'a': a}, {'r': r, 'o': o}
        add('Constant w%d value %d' % (w, v), b, 'comb')
    # EqualConstant with out-of-range / negative constants
    for w, v in ((3, 8), (3, 9), (3, -1), (1, 2), (1, 3), (4, 16), (32, -1), (32, (1 << 32) + 1), (32, (1 << 32) - 1), (40, 1 << 35), (33, 1 << 32)):
        def b(s, w=w, v=v):
            a, r = W(s, 'a', w), W(s, 'r', 1)
            EqualConstant(s, 'eq', a, v, r)
            return {'a': a}, {'r': r}
        add('EqualConstant w%d constant %d (outside the operand range or wider than 32 bits)' % (w, v), b, 'comb')
    # the boundary of the operand range at every width class of the literal emitters (below / at / above 32 bits)
    for w in (2, 30, 31, 32, 33, 40):
        for v in ((1 << w) - 1, 1 << w, (1 << w) + 1, 1 << (w + 1), 1 << (w - 1), -(1 << (w - 1)), -1):
            for cls in (EqualConstant, NotEqualConstant):
                def b(s, w=w, v=v, cls=cls):
                    a, r = W(s, 'a', w), W(s, 'r', 1)
                    cls(s, 'eq', a, v, r)
                    return {'a': a}, {'r': r}
                add('%s w%d constant %d (boundary of the operand range)' % (cls.__name__, w, v), b, 'comb')
    # gates whose result wire is wider / narrower than the operands (IEEE 1364 sizes the operands to the target
    # before inverting, so the upper result bits of an inverting gate are 1)
    for aw, rw in ((4, 8), (2, 3), (1, 3), (4, 2), (8, 4), (3, 33)):
        def b(s, aw=aw, rw=rw):
            a, r = W(s, 'a', aw), W(s, 'r', rw)
            Not(s, 'g', a, r)
            return {'a': a}, {'r': r}
        add('Not a%d r%d (result width differs from the operand)' % (aw, rw), b, 'comb')
    for cls in (Nand2, Nor2, Xor2):
        for aw, bw, rw in ((4, 4, 8), (2, 4, 6), (4, 2, 3), (1, 1, 2), (4, 4, 2)):
            def b(s, cls=cls, aw=aw, bw=bw, rw=rw):
                a, c, r = W(s, 'a', aw), W(s, 'b', bw), W(s, 'r', rw)
                cls(s, 'g', a, c, r)
                return {'a': a, 'b': c}, {'r': r}
            add('%s a%d b%d r%d (mixed widths)' % (cls.__name__, aw, bw, rw), b, 'comb')
    for cls in (Nor, And, Or, Xor):
        for ws_, rw in (((2, 2), 4), ((3, 3, 3), 5), ((2, 4), 4), ((4, 4), 2)):
            def b(s, cls=cls, ws_=ws_, rw=rw):
                ins = {'i%d' % k: W(s, 'i%d' % k, w) for k, w in enumerate(ws_)}
                r = W(s, 'r', rw)
                cls(s, 'g', list(ins.values()), r)
                return ins, {'r': r}
            add('%s inputs %s r%d (mixed widths)' % (cls.__name__, ws_, rw), b, 'comb')
    # hand-written bodies: memories, message sequencer
    for aw, dw in ((1, 2), (2, 4)):
        def b(s, aw=aw, dw=dw):
            ra, wa, wr, rd, wd = W(s, 'ra', aw), W(s, 'wa', aw), W(s, 'write', 1), W(s, 'readdata', dw), W(s, 'writedata', dw)
            SynchronousMemory(s, 'mem', ra, wa, wr, rd, wd)
            return {'ins': {'ra': ra, 'wa': wa, 'write': wr, 'writedata': wd}, 'outs': {'readdata': rd}}
        add('SynchronousMemory aw%d dw%d' % (aw, dw), b, induction=False)

        def b2(s, aw=aw, dw=dw):
            w = {}
            for pn, ww in (('ra_a', aw), ('wa_a', aw), ('write_a', 1), ('rd_a', dw), ('wd_a', dw),
                           ('ra_b', aw), ('wa_b', aw), ('write_b', 1), ('rd_b', dw), ('wd_b', dw)):
                w[pn] = W(s, pn, ww)
            DualPortSynchronousMemory(s, 'mem', w['ra_a'], w['wa_a'], w['write_a'], w['rd_a'], w['wd_a'],
                                      w['ra_b'], w['wa_b'], w['write_b'], w['rd_b'], w['wd_b'])
            return {'ins': {k: v for k, v in w.items() if not k.startswith('rd_')}, 'outs': {'rd_a': w['rd_a'], 'rd_b': w['rd_b']}}
        add('DualPortSynchronousMemory aw%d dw%d' % (aw, dw), b2, induction=False)
    for msg in ('Hi', 'abc', 'x'):
        def b(s, msg=msg):
            ready, valid, v = W(s, 'ready', 1), W(s, 'valid', 1), W(s, 'v', 8)
            MsgSequencer(s, 'seq', ready, valid, v, msg)
            return {'ins': {'ready': ready}, 'outs': {'valid': valid, 'v': v}}
        add('MsgSequencer %r' % msg, b, induction=False, K=8)
    # shared named modules used twice with different optional ports; hierarchy
    def shared(s):
        a, b_ = W(s, 'a', 4), W(s, 'b', 4)
        r1, r2, i2 = W(s, 'r1', 4), W(s, 'r2', 4), W(s, 'i2', 1)
        Abs(s, 'abs1', a, r1)
        Abs(s, 'abs2', b_, r2, inverted=i2)
        s1, s2 = W(s, 's1', 4), W(s, 's2', 4)
        Add(s, 'add1', a, b_, s1)
        Add(s, 'add2', r1, r2, s2)
        return {'a': a, 'b': b_}, {'r1': r1, 'r2': r2, 'i2': i2, 's1': s1, 's2': s2}
    add('shared modules: Abs with/without inverted, two Add4', shared, 'comb')

    def shared2(s):
        a, b_ = W(s, 'a', 4), W(s, 'b', 4)
        r1, r2, i2 = W(s, 'r1', 4), W(s, 'r2', 4), W(s, 'i2', 1)
        Abs(s, 'abs2', b_, r2, inverted=i2)
        Abs(s, 'abs1', a, r1)
        return {'a': a, 'b': b_}, {'r1': r1, 'r2': r2, 'i2': i2}
    add('shared modules: Abs with inverted first', shared2, 'comb')

    # a shared named module whose FIRST instance has one wire on two of its ports (the body is written from that instance)
    def alias_add(s):
        a, b_ = W(s, 'a', 4), W(s, 'b', 4)
        t, u = W(s, 't', 4), W(s, 'u', 4)
        Add(s, 'dbl', a, a, t)
        Add(s, 'sum', t, b_, u)
        return {'a': a, 'b': b_}, {'t': t, 'u': u}
    add('shared modules: Add with one wire on both operands first, ordinary Add second', alias_add, 'comb')

    def alias_bufen(s):
        a, e = W(s, 'a', 1), W(s, 'e', 1)
        r1, r2 = W(s, 'r1', 1), W(s, 'r2', 1)
        BufEnable(s, 'same', e, e, r1)
        BufEnable(s, 'be', a, e, r2)
        return {'a': a, 'e': e}, {'r1': r1, 'r2': r2}
    add('shared modules: 1-bit BufEnable with one wire on data and enable first', alias_bufen, 'comb')

    def alias_add3(s):
        a, c = W(s, 'a', 1), W(s, 'c', 1)
        t, u = W(s, 't', 1), W(s, 'u', 1)
        Add(s, 'x', a, c, t, ci=c)
        Add(s, 'y', t, a, u, ci=c)
        return {'a': a, 'c': c}, {'t': t, 'u': u}
    add('shared modules: 1-bit Add with carry-in wire shared with an operand first', alias_add3, 'comb')

    def alias_nary(s):
        a, b_ = W(s, 'a', 3), W(s, 'b', 3)
        o = [W(s, 'o%d' % k, 3) for k in range(5)]
        Xor(s, 'x3', [a, b_, a], o[0])
        And(s, 'a3', [a, b_, a], o[1])
        Or(s, 'o3', [b_, a, b_, a], o[2])
        Nor(s, 'n3', [a, a, b_], o[3])
        Xor(s, 'x4', [a, a, b_, b_], o[4])
        return {'a': a, 'b': b_}, {'o%d' % k: o[k] for k in range(5)}
    add('n-ary gates with one wire on several of their inputs', alias_nary, 'comb')

    def alias_cmp(s):
        a, b_ = W(s, 'a', 4), W(s, 'b', 4)
        o = [W(s, 'o%d' % k, 1) for k in range(6)]
        Comparator(s, 'same', a, a, o[0], o[1], o[2])
        Comparator(s, 'cmp', a, b_, o[3], o[4], o[5])
        return {'a': a, 'b': b_}, {'o%d' % k: o[k] for k in range(6)}
    add('shared modules: Comparator with one wire on both operands first', alias_cmp, 'comb')

    def alias_reg(s):
        a = W(s, 'a', 4)
        h, q = W(s, 'h', 4), W(s, 'q', 4)
        Reg(s, 'hold', h, h, reset_value=5)
        Reg(s, 'reg', a, q, reset_value=5)
        return {'ins': {'a': a}, 'outs': {'h': h, 'q': q}}
    add('shared modules: Reg fed back onto itself first, ordinary Reg second', alias_reg)

    # one wire on an input AND an output port of a structural block (feedback through the parent)
    def feedback_box(s):
        step, acc = W(s, 'step', 4), W(s, 'acc', 4)

        def body(b):
            t = b.wire('t', 4)
            Add(b, 'add', acc, step, t)
            Reg(b, 'reg', t, acc)
        D.Box(s, 'accum', {'a': acc, 'inc': step}, {'r': acc}, body)
        o = W(s, 'o', 4)
        Not(s, 'n', acc, o)
        return {'ins': {'step': step}, 'outs': {'o': o, 'acc': acc}}
    add('structural block with one wire on an input and an output port (accumulator feedback)', feedback_box)

    def selfadd(s):
        step, x = W(s, 'step', 4), W(s, 'x', 4)
        d, q = W(s, 'd', 4), W(s, 'q', 4)
        Add(s, 'sum', q, step, d)
        Reg(s, 'reg', d, q)
        y = W(s, 'y', 4)
        Add(s, 'other', step, step, y)
        return {'ins': {'step': step}, 'outs': {'q': q, 'y': y}}
    add('shared Add used with distinct operands and with one wire on both operands, around a register', selfadd)

    # two instances of one per-instance class: the first without registers, the second with registers (and the reverse)
    for first, second in ((0, 2), (2, 0), (0, 1)):
        def dl(s, first=first, second=second):
            a, en = W(s, 'a', 4), W(s, 'en', 1)
            r1, r2 = W(s, 'r1', 4), W(s, 'r2', 4)
            DelayLine(s, 'd_first', a, en, None, r1, first)
            DelayLine(s, 'd_second', a, en, None, r2, second)
            return {'ins': {'a': a, 'en': en}, 'outs': {'r1': r1, 'r2': r2}}
        add('DelayLine delay %d next to DelayLine delay %d' % (first, second), dl)

    def hier(s):
        a, e = W(s, 'a', 3), W(s, 'e', 1)
        o, c = W(s, 'o', 3), W(s, 'c', 3)

        def inner(b2):
            m = b2.wire('m', 3)
            Not(b2, 'n', a, m)
            Reg(b2, 'r', m, o, enable=e)

        def outer(b1):
            D.Box(b1, 'inner', {'a': a, 'e': e}, {'o': o}, inner)
            Counter(b1, 'cnt', None, e, c)
        D.Box(s, 'outer', {'a': a, 'e': e}, {'o': o, 'c': c}, outer)
        return {'ins': {'a': a, 'e': e}, 'outs': {'o': o, 'c': c}}
    add('hierarchy depth 2 with register and counter', hier)

    def fanout(s):
        a, b_ = W(s, 'a', 4), W(s, 'b', 4)
        x = W(s, 'x', 4)
        And2(s, 'g', a, b_, x)
        o1, o2, o3 = W(s, 'o1', 4), W(s, 'o2', 4), W(s, 'o3', 1)
        Not(s, 'n', x, o1)
        Add(s, 'ad', x, a, o2)
        Equal(s, 'eq', x, b_, o3)
        return {'a': a, 'b': b_}, {'o1': o1, 'o2': o2, 'o3': o3}
    add('fan-out of an internal net to three sinks', fanout, 'comb')

    def latch(s):
        d, q, e = W(s, 'd', 4), W(s, 'q', 4), W(s, 'e', 1)
        Latch(s, 'lt', d, q, e)
        return {'ins': {'d': d, 'e': e}, 'outs': {'q': q}}
    add('Latch (transpiled always @(*) with storage)', latch, induction=False)
    return out


def compositions(tier, seed):
    """seeded random compositions of primitives (feedback only through Reg)"""
    quick = tier == 'quick'
    n = 60 if quick else 600
    out = []
    for k in range(n):
        def b(s, k=k):
            rnd = random.Random('%d/%d' % (seed, k))
            w = rnd.choice([1, 2, 3, 4, 8])
            nin = rnd.randint(1, 3)
            ins = {'i%d' % j: W(s, 'i%d' % j, w) for j in range(nin)}
            ins['c'] = W(s, 'c', 1)
            pool = [x for n_, x in ins.items() if n_ != 'c']
            regs = []
            nreg = rnd.randint(0, 2)
            for j in range(nreg):
                q = W(s, 'q%d' % j, w)
                regs.append(q)
                pool.append(q)
            nb = rnd.randint(2, 7)
            for j in range(nb):
                op = rnd.choice(['and', 'or', 'xor', 'not', 'add', 'sub', 'mux', 'shl', 'shr', 'mul', 'eq', 'neg', 'cmp', 'buf', 'range', 'sext'])
                r = W(s, 't%d' % j, w)
                a, c = rnd.choice(pool), rnd.choice(pool)
                nm = 'u%d' % j
                if op == 'and': And2(s, nm, a, c, r)
                elif op == 'or': Or2(s, nm, a, c, r)
                elif op == 'xor': Xor2(s, nm, a, c, r)
                elif op == 'not': Not(s, nm, a, r)
                elif op == 'add': Add(s, nm, a, c, r)
                elif op == 'sub': Sub(s, nm, a, c, r)
                elif op == 'mux': Mux2(s, nm, ins['c'], a, c, r)
                elif op == 'shl': ShiftLeftConstant(s, nm, a, rnd.randint(0, w), r)
                elif op == 'shr': ShiftRightConstant(s, nm, a, rnd.randint(0, w), r)
                elif op == 'mul': Mul(s, nm, a, c, r)
                elif op == 'neg': Neg(s, nm, a, r)
                elif op == 'buf': Buf(s, nm, a, r)
                elif op == 'eq':
                    e1 = W(s, 'e%d' % j, 1)
                    Equal(s, nm, a, c, e1)
                    Repeat(s, nm + 'r', e1, r)
                elif op == 'cmp':
                    g, e1, l = W(s, 'g%d' % j, 1), W(s, 'e%d' % j, 1), W(s, 'l%d' % j, 1)
                    Comparator(s, nm, a, c, g, e1, l)
                    Repeat(s, nm + 'r', l, r)
                elif op == 'range':
                    hi = rnd.randint(0, w - 1)
                    lo = rnd.randint(0, hi)
                    t = W(s, 'rg%d' % j, hi - lo + 1)
                    Range(s, nm, a, hi, lo, t)
                    ZeroExtend(s, nm + 'z', t, r)
                elif op == 'sext':
                    t = W(s, 'sx%d' % j, w + 2)
                    SignExtend(s, nm, a, t)
                    Range(s, nm + 'r', t, w, 1, r)
                pool.append(r)
            for j, q in enumerate(regs):
                kind = rnd.choice(['plain', 'en', 'rst', 'both'])
                dsrc = rnd.choice(pool[nin:])
                Reg(s, 'reg%d' % j, dsrc, q, enable=ins['c'] if kind in ('en', 'both') else None,
                    reset=ins['i0'] if (kind in ('rst', 'both') and w == 1) else None)
            outs = {}
            for j in range(rnd.randint(1, 3)):
                src = rnd.choice(pool[nin:])
                o = W(s, 'o%d' % j, w)
                Buf(s, 'ob%d' % j, src, o)
                outs['o%d' % j] = o
            return {'ins': ins, 'outs': outs}
        out.append(('composition #%d (seed %d)' % (k, seed), {'build': wrap_in_box(b, 'seq')}))
    return out


# library blocks instantiated with port widths drawn independently ("all port widths" of the statement): i = input wire,
# o = output wire (width drawn from 1,2,3,4,5,8), b = one-bit input, q = one-bit output; a constructor refusal is not a finding
SWEEP = [
    ('Xor2', 'iio'), ('Nand2', 'iio'), ('Nor2', 'iio'), ('And2', 'iio'), ('Or2', 'iio'), ('Not', 'io'), ('Buf', 'io'),
    ('Mux2', 'biio'), ('Mux2', 'iiio'), ('BufEnable', 'ibo'), ('Repeat', 'bo'), ('AndBits', 'iq'), ('OrBits', 'iq'),
    ('Equal', 'iiq'), ('Comparator', 'iiqqq'), ('Max2', 'iio'), ('Min2', 'iio'), ('Swap', 'iiboo'),
    ('Add', 'iio'), ('Sub', 'iio'), ('Mul', 'iio'), ('Neg', 'io'), ('Abs', 'io'), ('Sign', 'iq'), ('SignExtend', 'io'), ('ZeroExtend', 'io'),
    ('ShiftLeft', 'iio'), ('ShiftRight', 'iio'), ('RotateLeft', 'iio'), ('RotateRight', 'iio'), ('AddCarryIn', 'iiob'), ('SubBorrowIn', 'iiob'),
    ('SignedAdd', 'iio'), ('SignedSub', 'iio'), ('SignedMul', 'iio'),
    ('And', 'Lo'), ('Or', 'Lo'), ('Xor', 'Lo'), ('Nor', 'Lo'), ('ConcatenateMSBF', 'Lo'), ('ConcatenateLSBF', 'Lo'), ('Select', 'SLo'), ('OneHotMux', 'SLo'),
    ('AnyEqual', 'iLq'), ('Mux', 'iMo'),
    ('Reg', 'io'), ('Reg', 'ioi'), ('Reg', 'ioii'), ('TReg', 'io'), ('TReg', 'ioi'), ('Counter', 'bbo'), ('Counter', 'iio'), ('Latch', 'iob'), ('Latch', 'ioi'),
]


def width_sweep(tier, seed):
    quick = tier == 'quick'
    rnd = random.Random(1000 + seed)
    out = []
    for cname, sig in SWEEP:
        cls = globals().get(cname) or getattr(py4hw, cname)
        for k in range(3 if quick else 12):
            n = rnd.choice([2, 3, 4])
            toks = []
            for ch in sig:
                if ch == 'L':         # list of n inputs of independent widths
                    toks.append(('L', [rnd.choice([1, 2, 3, 4, 5, 8]) for _ in range(n)]))
                elif ch == 'S':       # list of n one-bit inputs
                    toks.append(('L', [1] * n))
                elif ch == 'M':       # list of 2 or 4 inputs (selection tree)
                    toks.append(('L', [rnd.choice([1, 2, 3, 4, 5, 8]) for _ in range(rnd.choice([2, 4]))]))
                else:
                    toks.append(('i' if ch in 'ib' else 'o', 1 if ch in 'bq' else rnd.choice([1, 2, 3, 4, 5, 8])))

            def b(s, cls=cls, toks=toks):
                ins, outs, args = {}, {}, []
                for j, (d, w) in enumerate(toks):
                    if d == 'L':
                        lst = []
                        for k2, w2 in enumerate(w):
                            wr = W(s, 'l%d_%d' % (j, k2), w2)
                            ins['l%d_%d' % (j, k2)] = wr
                            lst.append(wr)
                        args.append(lst)
                        continue
                    wr = W(s, '%s%d' % (d, j), w)
                    (ins if d == 'i' else outs)['%s%d' % (d, j)] = wr
                    args.append(wr)
                cls(s, 'dut', *args)
                return {'ins': ins, 'outs': outs}
            out.append(('width sweep %s %s' % (cname, ' '.join('%s%s' % (d, '/'.join(map(str, w)) if d == 'L' else w) for d, w in toks)), {'build': wrap_in_box(b, 'seq')}))
    return out


def pair_sweep(tier, seed):
    """two instances of one library class in one design whose port widths differ in ONE port (all others equal): the generator
    either shares one module between them (then the interfaces must really be the same) or emits two - a module name that does
    not encode the differing width binds the second instance to the first body.  Systematic part: every port position of every
    signature made narrower / wider than the common width, both instantiation orders; seeded part: independent draws."""
    quick = tier == 'quick'
    rnd = random.Random(2000 + seed)
    out = []
    WID = [1, 2, 3, 4, 5, 8]

    def emit(cname, cls, first, second):
        def b(s, cls=cls, first=first, second=second):
            ins, outs = {}, {}
            for inst, tk in (('u1', first), ('u2', second)):
                args = []
                for j, (d, w) in enumerate(tk):
                    if d == 'L':
                        lst = []
                        for k2, w2 in enumerate(w):
                            nm = '%s_l%d_%d' % (inst, j, k2)
                            ins[nm] = W(s, nm, w2)
                            lst.append(ins[nm])
                        args.append(lst)
                        continue
                    nm = '%s_%s%d' % (inst, d, j)
                    wr = W(s, nm, w)
                    (ins if d == 'i' else outs)[nm] = wr
                    args.append(wr)
                cls(s, inst, *args)
            return {'ins': ins, 'outs': outs}
        fmt = lambda tk: ' '.join('%s%s' % (d, '/'.join(map(str, w)) if d == 'L' else w) for d, w in tk)
        out.append(('instance pair %s [%s] then [%s]' % (cname, fmt(first), fmt(second)), {'build': wrap_in_box(b, 'seq')}))

    def base(sig, w0, n):
        toks = []
        for ch in sig:
            if ch == 'L':
                toks.append(('L', [w0] * n))
            elif ch == 'S':
                toks.append(('L', [1] * n))
            elif ch == 'M':
                toks.append(('L', [w0] * 2))
            else:
                toks.append(('i' if ch in 'ib' else 'o', 1 if ch in 'bq' else w0))
        return toks

    for cname, sig in SWEEP:
        cls = globals().get(cname) or getattr(py4hw, cname)
        for w0, others in (((4, (2, 8)),) if quick else ((4, (2, 8)), (3, (1, 5)), (8, (4, 5)))):
            toks = base(sig, w0, 2)
            for j, ch in enumerate(sig):
                if ch not in 'ioLM':
                    continue
                for w1 in others:
                    toks2 = [(d, list(w) if d == 'L' else w) for d, w in toks]
                    if toks2[j][0] == 'L':
                        toks2[j][1][-1] = w1
                    else:
                        toks2[j] = (toks2[j][0], w1)
                    emit(cname, cls, toks2, toks)
                    emit(cname, cls, toks, toks2)
        for k in range(1 if quick else 8):
            n = rnd.choice([2, 3])
            toks = [(d, [rnd.choice(WID) for _ in w] if (d == 'L' and sig[j] != 'S') else (w if d == 'L' or sig[j] in 'bq' else rnd.choice(WID)))
                    for j, (d, w) in enumerate(base(sig, 4, n))]
            cand = [j for j, ch in enumerate(sig) if ch in 'ioLM']
            j = rnd.choice(cand)
            toks2 = [(d, list(w) if d == 'L' else w) for d, w in toks]
            d, w = toks2[j]
            if d == 'L':
                kk = rnd.randrange(len(w))
                w[kk] = rnd.choice([x for x in WID if x != w[kk]])
            else:
                toks2[j] = (d, rnd.choice([x for x in WID if x != w]))
            emit(cname, cls, toks, toks2)
            emit(cname, cls, toks2, toks)
    return out


def cfgs(tier, seed=0):
    quick = tier == 'quick'
    out = []
    for name, cfg in c07.cfgs(tier):
        if quick and (zlib.crc32(name.encode()) + seed) % 3:
            continue                       # quick: a third of the C07 grid, rotated by the seed
        out.append(('C07/' + name, {'build': wrap_in_box(cfg['build'], 'comb'), 'assume': cfg.get('assume')}))
    for name, cfg in c08.cfgs(tier):
        out.append(('C08/' + name, {'build': wrap_in_box(cfg['build'], 'comb'), 'assume': cfg.get('assume')}))
    for name, cfg in c09.cfgs(tier):
        out.append(('C09/' + name, {'build': wrap_in_box(cfg['build'], 'seq')}))
    out += extra_cfgs(tier)
    out += width_sweep(tier, seed)
    out += pair_sweep(tier, seed)
    out += compositions(tier, seed)
    return out


def main(argv=None):
    args = common.parse_args(PROP, argv)
    from selftest import vlog_table
    n, bad = vlog_table.run()
    if bad:
        for b in bad:
            print('HARNESS-ERROR: Verilog front end self-test failed:', b)
        return 2
    tasks = [(name, equiv_task, cfg) for name, cfg in cfgs(args.tier, args.seed)]
    return common.run_check(
        PROP, 'translation_validation', tasks, args, design_ref='DESIGN.md section 3 (C01)',
        technique='SMT equivalence checking (z3 QF_BV): emitted Verilog elaborated by an IEEE-1364 subset front end versus symbolic execution of the real simulator; power-up, BMC, 1-step induction over registers',
        assumptions=['two-state Verilog semantics; variables without initialiser power up as 0', 'divisors non-zero (simulator documented as nondeterministic otherwise)',
                     'single clock domain; gated clock drivers, inout/BidirBuf and vendor IP wrappers are outside',
                     'state correspondence for induction: py4hw Reg leaf <-> i_<path>.rq'],
        bounds={'designs': 'library grids of C07/C08/C09 (quick: 1/8, 1/5, 1/3 samples; thorough 1/2, all, all), emission-route designs, %s seeded compositions' % ('60' if args.tier == 'quick' else '600'),
                'cycles': 'power-up + %d edges with fresh inputs each; induction where all state is plain registers' % (3 if args.tier == 'quick' else 6)},
        trusted_base=['z3', 'symx', 'vlog front end (self-test table of %d cases passed)' % n],
        extra_coverage={'frontend_selftest_cases': n})


if __name__ == '__main__':
    sys.exit(main())
