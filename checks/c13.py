"""
C13 -- single-precision floating-point blocks meet IEEE-754 within the stated error bounds.

The real structural blocks (hundreds of leaves) are simulated on 32-bit symbols; the oracles
are integer formulas over the sign/exponent/mantissa fields (no FP theory).
"""
import sys
import time

import z3

from . import common
from .comb import quiet, zx, sx
from symx import core, symsim
from symx.core import ctx

import py4hw
from py4hw.logic.arithmetic_fp import FPAdder_SP, FPMult_SP, FPtoInt_SP, InttoFP_SP
from py4hw.logic.relational import FPComparator_SP

PROP = 'C13'


def fields(x):
    return z3.Extract(31, 31, x), z3.Extract(30, 23, x), z3.Extract(22, 0, x)


def normal(x):
    s, e, m = fields(x)
    return z3.And(e != 0, e != 255)


def b1(c):
    return z3.If(c, z3.BitVecVal(1, 1), z3.BitVecVal(0, 1))


def T(v, w):
    """value on a wire (SymInt/int) as an unsigned z3 term of width w"""
    return z3.Extract(w - 1, 0, core.to_term(v, w + 1))


def sim_block(build, rec, inputs, values=None):
    with quiet():
        s = py4hw.HWSystem()
        d = build(s)
    V = {}
    for n in inputs:
        w = d[n]
        if values is None:
            x, v = core.fresh(n, w.getWidth())
            V[n] = v
            w.put(x)
        else:
            w.put(values[n])
    if values is None:
        symsim.instrument(s, rec)
    with quiet():
        s.getSimulator()
    return s, d, V


# ---------------------------------------------------------------------------------------------
def cmp_task(p, cfg, rec):
    absolute = cfg['absolute']

    def build(s):
        a, b = s.wire('a', 32), s.wire('b', 32)
        gt, eq, lt = s.wire('gt'), s.wire('eq'), s.wire('lt')
        FPComparator_SP(s, 'dut', a, b, gt, eq, lt, absolute=absolute)
        return {'a': a, 'b': b, 'gt': gt, 'eq': eq, 'lt': lt}
    s, d, V = sim_block(build, rec, ['a', 'b'])
    a, b = V['a'], V['b']
    p.assume(z3.And(normal(a), normal(b)))
    ma_, mb_ = zx(z3.Extract(30, 0, a), 33), zx(z3.Extract(30, 0, b), 33)
    if absolute:
        ka, kb = ma_, mb_
    else:
        ka = z3.If(z3.Extract(31, 31, a) == 1, -ma_, ma_)
        kb = z3.If(z3.Extract(31, 31, b) == 1, -mb_, mb_)
    exp = {'gt': b1(ka > kb), 'eq': b1(ka == kb), 'lt': b1(ka < kb)}

    def replay(name):
        def r(values):
            import struct
            s2, d2, _ = sim_block(build, None, ['a', 'b'], values)
            fa = struct.unpack('>f', struct.pack('>I', values['a']))[0]
            fb = struct.unpack('>f', struct.pack('>I', values['b']))[0]
            if absolute:
                fa, fb = abs(fa), abs(fb)
            e = {'gt': int(fa > fb), 'eq': int(fa == fb), 'lt': int(fa < fb)}[name]
            got = d2[name].get()
            return None if got == e else {'a': hex(values['a']), 'b': hex(values['b']), 'output': name, 'got': got, 'expected': e,
                                          'fa': fa, 'fb': fb}
        return r
    for n in ('gt', 'eq', 'lt'):
        p.prove(n, T(d[n].get(), 1) != exp[n], inputs=V, replay=replay(n), canary=(T(d[n].get(), 1) == exp[n]))
    p.res['states'] += 1


# ---------------------------------------------------------------------------------------------
def i2f_task(p, cfg, rec):
    def build(s):
        a, r, pl = s.wire('a', 32), s.wire('r', 32), s.wire('p_lost')
        InttoFP_SP(s, 'dut', a, r, pl)
        return {'a': a, 'r': r, 'p_lost': pl}
    s, d, V = sim_block(build, rec, ['a'])
    a = V['a']
    x = sx(a, 34)
    mag = z3.If(x < 0, -x, x)                       # 0 .. 2**31
    r = z3.BitVecVal(0, 32)
    lost = z3.BoolVal(False)
    sgn = z3.Extract(31, 31, a)
    for k in range(32):
        if k >= 23:
            frac = z3.Extract(22, 0, z3.LShR(mag, k - 23))
            lo = z3.Extract(max(k - 24, 0), 0, mag) != 0 if k > 23 else z3.BoolVal(False)
        else:
            frac = z3.Extract(22, 0, mag << (23 - k))
            lo = z3.BoolVal(False)
        enc = z3.Concat(sgn, z3.BitVecVal(127 + k, 8), frac)
        hit = z3.Extract(k, k, mag) == 1
        r = z3.If(hit, enc, r)
        lost = z3.If(hit, lo, lost)

    def replay(name):
        def rp(values):
            s2, d2, _ = sim_block(build, None, ['a'], values)
            v = values['a'] - (1 << 32) if values['a'] >> 31 else values['a']
            mg = abs(v)
            if mg == 0:
                er, el = 0, 0
            else:
                k = mg.bit_length() - 1
                fr = (mg >> (k - 23)) if k >= 23 else (mg << (23 - k))
                el = int(k > 23 and (mg & ((1 << (k - 23)) - 1)) != 0)
                er = ((1 if v < 0 else 0) << 31) | ((127 + k) << 23) | (fr & 0x7FFFFF)
            e = {'r': er, 'p_lost': el}[name]
            got = d2[name].get()
            return None if got == e else {'a': v, 'output': name, 'got': hex(got), 'expected': hex(e)}
        return rp
    p.prove('r == float(trunc24(a))', T(d['r'].get(), 32) != r, inputs=V, replay=replay('r'))
    p.prove('p_lost <=> discarded bits != 0', T(d['p_lost'].get(), 1) != b1(lost), inputs=V, replay=replay('p_lost'))
    p.res['states'] += 1


# ---------------------------------------------------------------------------------------------
def f2i_task(p, cfg, rec):
    def build(s):
        a, r = s.wire('a', 32), s.wire('r', 32)
        pl, dn, iv = s.wire('p_lost'), s.wire('denorm'), s.wire('invalid')
        FPtoInt_SP(s, 'dut', a, r, pl, dn, iv)
        return {'a': a, 'r': r, 'p_lost': pl, 'denorm': dn, 'invalid': iv}
    s, d, V = sim_block(build, rec, ['a'])
    a = V['a']
    sg, e, m = fields(a)
    p.assume(normal(a))
    M = z3.Concat(z3.BitVecVal(1, 1), m)             # 24 bits
    E = zx(e, 10) - 127                               # signed 10 bit
    big = E >= 31
    small = E < 0
    M56 = zx(M, 56)
    sh = zx(z3.Extract(5, 0, E), 56)                  # 0..30 when neither big nor small
    full = M56 << sh                                  # value * 2**23
    integer = z3.Extract(54, 23, full)                # 32 bits
    lostbits = z3.Extract(22, 0, full) != 0
    ri = z3.If(sg == 1, -integer, integer)
    exp_r = z3.If(small, z3.BitVecVal(0, 32), ri)
    exp_lost = z3.If(small, z3.BoolVal(True), lostbits)

    def replay(name):
        def rp(values):
            import struct
            from fractions import Fraction
            s2, d2, _ = sim_block(build, None, ['a'], values)
            f = Fraction(struct.unpack('>f', struct.pack('>I', values['a']))[0])
            got = d2[name].get()
            if abs(f) >= 2 ** 31:
                e = {'invalid': 1}.get(name)
            else:
                t = int(f)          # truncation toward zero
                e = {'r': t & 0xFFFFFFFF, 'p_lost': int(t != f), 'invalid': 0}[name]
            if e is None or got == e:
                return None
            return {'a': hex(values['a']), 'value': float(f), 'output': name, 'got': got, 'expected': e}
        return rp
    ok_dom = z3.Not(big)
    p.prove('|x| < 2**31: r == trunc(x)', z3.And(ok_dom, T(d['r'].get(), 32) != exp_r), inputs=V, replay=replay('r'))
    p.prove('|x| < 2**31: p_lost <=> truncation discarded something', z3.And(ok_dom, T(d['p_lost'].get(), 1) != b1(exp_lost)),
            inputs=V, replay=replay('p_lost'))
    p.prove('|x| < 2**31: invalid == 0', z3.And(ok_dom, T(d['invalid'].get(), 1) != 0), inputs=V, replay=replay('invalid'))
    p.prove('|x| >= 2**31: invalid == 1', z3.And(big, T(d['invalid'].get(), 1) != 1), inputs=V, replay=replay('invalid'))
    p.res['states'] += 1


# ---------------------------------------------------------------------------------------------
def mul_task(p, cfg, rec):
    def build(s):
        a, b, r = s.wire('a', 32), s.wire('b', 32), s.wire('r', 32)
        dut = FPMult_SP(s, 'dut', a, b, r)
        return {'a': a, 'b': b, 'r': r, 'dut': dut}
    ctx.simplify_merge = False
    s, d, V = sim_block(build, rec, ['a', 'b'])
    a, b = V['a'], V['b']
    p.assume(z3.And(normal(a), normal(b)))
    sa, ea, ma = fields(a)
    sb, eb, mb = fields(b)
    dut = d['dut']
    wma, wmb = dut._wires['ma'].get(), dut._wires['mb'].get()
    # lemma: the significand wires carry 1.m for normal operands
    p.prove('lemma: ma wire == 1.m', T(wma, 24) != z3.Concat(z3.BitVecVal(1, 1), ma), inputs=V)
    p.prove('lemma: mb wire == 1.m', T(wmb, 24) != z3.Concat(z3.BitVecVal(1, 1), mb), inputs=V)
    X = wma * wmb                               # the same product term the Mul leaf built (exact integers)
    Xt = T(X, 48)
    q = z3.Extract(47, 47, Xt) == 1
    efl = zx(ea, 12) + zx(eb, 12) - 127 + z3.If(q, z3.BitVecVal(1, 12), z3.BitVecVal(0, 12))   # exponent field of the exact product
    prod_normal = z3.And(efl >= 1, efl <= 254)
    R = T(d['r'].get(), 32)
    sr, er, mr = fields(R)
    SR = zx(z3.Concat(z3.BitVecVal(1, 1), mr), 52)
    X52 = zx(Xt, 52)

    def close(shift):
        # |SR * 2**shift - X| < 2**shift, shift = 23 + q
        lhs0 = SR << 23
        lhs1 = SR << 24
        lhs2 = SR << 25
        return lhs0, lhs1, lhs2
    l23, l24, l25 = SR << 23, SR << 24, SR << 25

    def absdiff(x, y):
        return z3.If(z3.UGE(x, y), x - y, y - x)
    er12 = zx(er, 12)
    ok_same = z3.And(er12 == efl, z3.If(q, z3.ULT(absdiff(l24, X52), z3.BitVecVal(1 << 24, 52)),
                                        z3.ULT(absdiff(l23, X52), z3.BitVecVal(1 << 23, 52))))
    ok_up = z3.And(er12 == efl + 1, z3.If(q, z3.ULT(absdiff(l25, X52), z3.BitVecVal(1 << 25, 52)),
                                          z3.ULT(absdiff(l24, X52), z3.BitVecVal(1 << 24, 52))))
    ok = z3.And(sr == (sa ^ sb), er != 0, er != 255, z3.Or(ok_same, ok_up))

    def replay(values):
        import struct
        from fractions import Fraction
        s2, d2, _ = sim_block(lambda s_: {k: v for k, v in build(s_).items()}, None, ['a', 'b'], values)
        fa = Fraction(struct.unpack('>f', struct.pack('>I', values['a']))[0])
        fb = Fraction(struct.unpack('>f', struct.pack('>I', values['b']))[0])
        exact = fa * fb
        got = d2['r'].get()
        ge = (got >> 23) & 0xFF
        if ge in (0, 255):
            return {'a': hex(values['a']), 'b': hex(values['b']), 'got': hex(got), 'note': 'result not a normal number', 'exact': float(exact)}
        fr = Fraction(struct.unpack('>f', struct.pack('>I', got))[0])
        ulp = Fraction(2) ** (ge - 150)
        if abs(fr - exact) < ulp and (fr < 0) == (exact < 0):
            return None
        return {'a': hex(values['a']), 'b': hex(values['b']), 'got': hex(got), 'exact': float(exact), 'result': float(fr),
                'error_in_ulp': float(abs(fr - exact) / ulp)}
    # The 24x24 product occurs as one and the same bvmul node in the implementation terms and in the
    # oracle; abstract it by a fresh variable ranging over [2**46, (2**24-1)**2] (a superset of the real
    # products), so the query is about the normalisation logic only.  Sound for 'holds'; a model
    # that is not a real product would fail to replay and be reported as a harness error.
    muls = []

    def walk(e, seen=set()):
        if e.get_id() in seen:
            return
        seen.add(e.get_id())
        if z3.is_app(e) and e.decl().kind() == z3.Z3_OP_BMUL:
            muls.append(e)
            return
        for c in e.children():
            walk(c)
    walk(core.to_term(X, 50))
    q_main = z3.And(prod_normal, z3.Not(ok))
    q_can = z3.And(prod_normal, ok)
    if len(muls) == 1:
        mt = muls[0]
        Xv = z3.BitVec('X_product', mt.size())
        q_main = z3.substitute(q_main, (mt, Xv))
        q_can = z3.substitute(q_can, (mt, Xv))
        rng = z3.And(z3.UGE(Xv, z3.BitVecVal(1 << 46, mt.size())), z3.ULE(Xv, z3.BitVecVal(((1 << 24) - 1) ** 2, mt.size())))
        q_main = z3.And(rng, q_main)
        q_can = z3.And(rng, q_can)
        p.note('FPMult: product node abstracted by a fresh %d-bit variable in [2**46,(2**24-1)**2]' % mt.size())
    q_exact = z3.And(prod_normal, z3.Not(ok))
    name = '|R - a*b| < 1 ulp(R), sign = sa^sb (exact product normal)'
    if len(muls) == 1:
        ra, _m = p.satisfiable([q_main])
        if ra == z3.unsat:
            # unsat for every value of the abstracted product => unsat for the real products
            p.prove(name + ' [product abstracted]', q_main, inputs=V, replay=replay, canary=q_can)
        else:
            # The abstraction admits a candidate product.  A full 24x24 symbolic product is out of reach for
            # bit-blasting (probed: > 300 s), so the exact query is decided with ONE mantissa symbolic and the
            # other fixed to each value of a boundary + seeded set (then the product is a multiplication by a
            # constant).  Any hit is replayed; no hit leaves the obligation inconclusive, never discharged.
            p.note('FPMult: abstract query %s, searching with one mantissa enumerated' % ra)
            rnd = p.rng
            cands = [0, 1, 2, (1 << 23) - 1, (1 << 23) - 2, 1 << 22, (1 << 22) - 1, 0x2AAAAA, 0x555555, 0x7FFFFE]
            cands += [rnd.getrandbits(23) for _ in range(30 if p.tier == 'quick' else 300)]
            hit = False
            for cm in cands:
                r_ = p.prove(name + ' [mantissa of b fixed to 0x%06x, everything else symbolic]' % cm,
                             z3.And(q_exact, z3.Extract(22, 0, b) == cm), inputs=V, replay=replay, timeout_s=30)
                if r_ is False:
                    hit = True
                    break
            if not hit:
                p.inconclusive(name, 'abstract product query satisfiable, no concrete witness found with %d enumerated mantissas' % len(cands))
    else:
        p.prove(name, q_exact, inputs=V, replay=replay, canary=z3.And(prod_normal, ok), timeout_s=(300 if p.tier == 'quick' else 1800))
    # commutativity
    s3, d3, V3 = sim_block(build, rec, ['b', 'a'])   # fresh() names: same z3 constants 'a','b'
    # drive the second instance with swapped operands
    with quiet():
        s4 = py4hw.HWSystem()
        d4 = build(s4)
        d4['a'].put(core.mk(z3.ZeroExt(1, b), 0, (1 << 32) - 1))
        d4['b'].put(core.mk(z3.ZeroExt(1, a), 0, (1 << 32) - 1))
        symsim.instrument(s4, rec)
        s4.getSimulator()

    def replay_c(values):
        x = sim_block(build, None, ['a', 'b'], values)[1]['r'].get()
        y = sim_block(build, None, ['a', 'b'], {'a': values['b'], 'b': values['a']})[1]['r'].get()
        return None if x == y else {'a': hex(values['a']), 'b': hex(values['b']), 'r(a,b)': hex(x), 'r(b,a)': hex(y)}
    p.prove('R(a,b) == R(b,a)', T(d4['r'].get(), 32) != R, inputs=V, replay=replay_c)
    p.res['states'] += 1


# ---------------------------------------------------------------------------------------------
def add_build(s):
    a, b, r = s.wire('a', 32), s.wire('b', 32), s.wire('r', 32)
    dut = FPAdder_SP(s, 'dut', a, b, r)
    return {'a': a, 'b': b, 'r': r, 'dut': dut}


def add_replay(values):
    import struct
    from fractions import Fraction
    s2, d2, _ = sim_block(add_build, None, ['a', 'b'], values)
    fa = Fraction(struct.unpack('>f', struct.pack('>I', values['a']))[0])
    fb = Fraction(struct.unpack('>f', struct.pack('>I', values['b']))[0])
    exact = fa + fb
    got = d2['r'].get()
    ge = (got >> 23) & 0xFF
    big_e = max((values['a'] >> 23) & 0xFF, (values['b'] >> 23) & 0xFF)
    ulp = Fraction(2) ** (big_e - 150)
    info = {'a': hex(values['a']), 'b': hex(values['b']), 'got': hex(got), 'exact': float(exact), 'fa': float(fa), 'fb': float(fb)}
    if ge in (0, 255):
        info['note'] = 'result is not a normal number'
        return info
    fr = Fraction(struct.unpack('>f', struct.pack('>I', got))[0])
    if abs(fr - exact) < 2 * ulp and (fr < 0) == (exact < 0):
        return None
    info['result'] = float(fr)
    info['error_in_ulp_of_larger_operand'] = float(abs(fr - exact) / ulp)
    return info


def add_task(p, cfg, rec):
    dgap = cfg['d']
    ctx.simplify_merge = False
    s, d, V = sim_block(add_build, rec, ['a', 'b'])
    a, b = V['a'], V['b']
    sa, ea, ma = fields(a)
    sb, eb, mb = fields(b)
    p.assume(z3.And(normal(a), normal(b)))
    p.assume(zx(ea, 10) == zx(eb, 10) + dgap)                                  # exponent gap (a has the larger exponent)
    p.assume(z3.UGE(z3.Extract(30, 0, a), z3.Extract(30, 0, b)))                # |a| >= |b| (other half by commutativity)
    n = 24 + dgap + 24 + 6
    Ma = zx(z3.Concat(z3.BitVecVal(1, 1), ma), n)
    Mb = zx(z3.Concat(z3.BitVecVal(1, 1), mb), n)
    same = sa == sb
    Tint = z3.If(same, (Ma << dgap) + Mb, (Ma << dgap) - Mb)                    # exact sum in units of 2**(eb-150), >= 0
    nonzero = Tint != 0
    lower = z3.If(z3.UGE(eb, 24), nonzero, z3.UGE(Tint, z3.BitVecVal(1, n) << (24 - zx(eb, n))))
    upper = z3.Not(z3.And(ea == 254, z3.UGE(Tint, z3.BitVecVal(1 << (24 + dgap), n))))
    sum_normal = z3.And(lower, upper)
    R = T(d['r'].get(), 32)
    sr, er, mr = fields(R)
    SR = zx(z3.Concat(z3.BitVecVal(1, 1), mr), n)
    # k = er - ea in [-25, 1]; R in units 2**(eb-150) scaled by 2**25:  SR * 2**(dgap + k + 25)
    k25 = zx(er, 10) - zx(ea, 10) + 25
    k_ok = z3.And(k25 >= 0, k25 <= 26)
    Rsc = SR << zx(z3.Extract(5, 0, k25), n) << dgap
    Tsc = Tint << 25
    diff = z3.If(z3.UGE(Rsc, Tsc), Rsc - Tsc, Tsc - Rsc)
    ok = z3.And(er != 0, er != 255, k_ok, sr == sa, z3.ULT(diff, z3.BitVecVal(1 << (dgap + 26), n)))
    q = {'d': dgap}
    p.prove('sign and |R-(a+b)| < 2 ulp(larger) at exponent gap %d' % dgap, z3.And(sum_normal, z3.Not(ok)), inputs=V,
            replay=add_replay, quantities=q, canary=z3.And(sum_normal, ok))
    # commutativity inside this case: the same operands presented in the other order
    with quiet():
        s4 = py4hw.HWSystem()
        d4 = add_build(s4)
        d4['a'].put(core.mk(z3.ZeroExt(1, b), 0, (1 << 32) - 1))
        d4['b'].put(core.mk(z3.ZeroExt(1, a), 0, (1 << 32) - 1))
        symsim.instrument(s4, rec)
        s4.getSimulator()

    def replay_c(values):
        x = sim_block(add_build, None, ['a', 'b'], values)[1]['r'].get()
        y = sim_block(add_build, None, ['a', 'b'], {'a': values['b'], 'b': values['a']})[1]['r'].get()
        return None if x == y else {'a': hex(values['a']), 'b': hex(values['b']), 'r(a,b)': hex(x), 'r(b,a)': hex(y)}
    p.prove('R(a,b) == R(b,a) at exponent gap %d (exact sum normal)' % dgap, z3.And(sum_normal, T(d4['r'].get(), 32) != R),
            inputs=V, replay=replay_c, quantities=q, timeout_s=240)
    p.res['states'] += 1


def addcomm_task(p, cfg, rec):
    ctx.simplify_merge = False
    s, d, V = sim_block(add_build, rec, ['a', 'b'])
    a, b = V['a'], V['b']
    p.assume(z3.And(normal(a), normal(b)))
    # exact cancellation (a == -b) has no normal exact sum; everywhere else commutativity is demanded
    p.assume(z3.Not(z3.And(z3.Extract(30, 0, a) == z3.Extract(30, 0, b), z3.Extract(31, 31, a) != z3.Extract(31, 31, b))))
    if cfg.get('dmax') is not None:
        ea, eb = zx(z3.Extract(30, 23, a), 10), zx(z3.Extract(30, 23, b), 10)
        p.assume(z3.And(ea - eb <= cfg['dmax'], eb - ea <= cfg['dmax']))
    with quiet():
        s4 = py4hw.HWSystem()
        d4 = add_build(s4)
        d4['a'].put(core.mk(z3.ZeroExt(1, b), 0, (1 << 32) - 1))
        d4['b'].put(core.mk(z3.ZeroExt(1, a), 0, (1 << 32) - 1))
        symsim.instrument(s4, rec)
        s4.getSimulator()

    def replay_c(values):
        x = sim_block(add_build, None, ['a', 'b'], values)[1]['r'].get()
        y = sim_block(add_build, None, ['a', 'b'], {'a': values['b'], 'b': values['a']})[1]['r'].get()
        return None if x == y else {'a': hex(values['a']), 'b': hex(values['b']), 'r(a,b)': hex(x), 'r(b,a)': hex(y)}
    ea8, eb8 = z3.Extract(30, 23, a), z3.Extract(30, 23, b)
    dq = core.mk(z3.If(z3.UGE(ea8, eb8), zx(ea8, 10) - zx(eb8, 10), zx(eb8, 10) - zx(ea8, 10)), 0, 255)
    ne = T(d4['r'].get(), 32) != T(d['r'].get(), 32)
    ma31, mb31 = z3.Extract(30, 0, a), z3.Extract(30, 0, b)
    for label, case in (('|a| > |b|', z3.UGT(ma31, mb31)), ('|a| < |b|', z3.ULT(ma31, mb31)), ('|a| == |b|', ma31 == mb31)):
        p.prove('R(a,b) == R(b,a) when %s' % label, z3.And(case, ne), inputs=V, replay=replay_c, quantities={'d': dq})
    p.res['states'] += 1


def tasks_for(tier):
    quick = tier == 'quick'
    t = [('FPComparator_SP plain', cmp_task, {'absolute': False}), ('FPComparator_SP absolute', cmp_task, {'absolute': True}),
         ('InttoFP_SP', i2f_task, {}), ('FPtoInt_SP', f2i_task, {}), ('FPMult_SP', mul_task, {})]
    gaps = [0, 1, 2, 3, 22, 23, 24, 25, 26, 31, 32, 33, 63, 64, 127, 253] if quick else list(range(0, 254))
    for g in gaps:
        t.append(('FPAdder_SP gap %03d' % g, add_task, {'d': g}))
    if not quick:
        t.append(('FPAdder_SP commutativity (all gaps at once)', addcomm_task, {}))
    return t


def main(argv=None):
    args = common.parse_args(PROP, argv)
    return common.run_check(
        PROP, 'model_checking', tasks_for(args.tier), args, design_ref='DESIGN.md section 3 (C13)',
        technique='symbolic execution of the real structural FP blocks on 32-bit symbols; QF_BV queries against field-level IEEE-754 integer oracles',
        assumptions=['operands finite and normal (exponent field 1..254)', 'adder: exact sum normal; |a| >= |b| per gap, the other half by the commutativity obligation',
                     'multiplier: product term shared between implementation and oracle (exact integer product of the significand wires, tied to the operand fields by a lemma)'],
        bounds={'adder exponent gap': 'quick: 16 selected gaps; thorough: all 0..253', 'operands': 'all 2**64 pairs inside each case'},
        trusted_base=['z3', 'symx operator semantics', 'integer oracles in checks/c13.py; replay uses struct + fractions.Fraction'],
        task_limit=1500)


if __name__ == '__main__':
    sys.exit(main())
