"""
Shared harness: obligations, solver calls, replay, known findings, evidence, sharding.

Exit codes: 0 property held on everything explored (KNOWN-FINDING lines allowed),
            1 unlisted, replayed violation (prints VIOLATION property=<id> replay=<path>),
            2 harness error (counterexample did not replay, solver disagreement, crash).
"""
import argparse
import fnmatch
import hashlib
import json
import multiprocessing
import os
import random
import signal
import subprocess
import sys
import tempfile
import time
import traceback

import z3

ROOT = os.path.dirname(os.path.dirname(os.path.abspath(__file__)))
if ROOT not in sys.path:
    sys.path.insert(0, ROOT)

from symx import core                      # noqa: E402
from symx.core import ctx, Unsupported, SymbolicPathError, SymInt, SymBool   # noqa: E402

EVIDENCE_DIR = os.path.join(ROOT, 'evidence')
REPLAY_DIR = os.path.join(ROOT, 'replays')
KNOWN_FILE = os.path.join(ROOT, 'known_findings.json')


class HarnessError(Exception):
    pass


class TaskTimeout(BaseException):
    """not an Exception: the path explorer records Exceptions raised by the analysed code as path results and would swallow it"""
    pass


def _alarm(signum, frame):
    signal.alarm(5)            # fire again should something on the way out catch it
    raise TaskTimeout()


def load_known(prop):
    try:
        with open(KNOWN_FILE) as f:
            d = json.load(f)
    except FileNotFoundError:
        return []
    return [e for e in d.get('findings', []) if e.get('property') == prop]


def model_value(m, var):
    v = m.eval(var, model_completion=True)
    if z3.is_bv_value(v):
        return v.as_long()
    if z3.is_true(v):
        return 1
    if z3.is_false(v):
        return 0
    if z3.is_int_value(v):
        return v.as_long()
    raise HarnessError('cannot read model value of %s' % var)


def term_size(e, limit=100000):
    seen = set()
    todo = [e]
    while todo and len(seen) < limit:
        x = todo.pop()
        i = x.get_id()
        if i in seen:
            continue
        seen.add(i)
        todo.extend(x.children())
    return len(seen)


class Prover:
    """One per task (configuration)."""

    def __init__(self, prop, config, tier='quick', seed=0, query_timeout_s=None):
        self.prop = prop
        self.config = config
        self.tier = tier
        self.seed = seed
        self.rng = random.Random('%s|%s|%s' % (prop, config, seed))
        self.xc_task = self.rng.random() < XCHECK_P[0]      # is this one of the tasks whose queries are sampled for the cross-check?
        self.timeout = query_timeout_s or (10 if tier == 'quick' else 120)
        self.solver = z3.Solver()
        self.solver.set('timeout', int(self.timeout * 1000))
        self.assumptions = []
        self.known = load_known(prop)
        self.res = {
            'config': config, 'obligations': 0, 'discharged': 0, 'nontrivial': 0, 'inconclusive': [],
            'violations': [], 'known_hits': [], 'canaries': 0, 'canaries_ok': 0, 'traces_validated': 0,
            'solver_time': 0.0, 'queries': 0, 'samples': [], 'functions': [], 'errors': [], 'notes': [],
            'crosschecked': 0, 'xc_tried': 0, 'states': 0, 'transitions': 0, 'refused': 0, 'programs': 0,
            'disagreements_checked': 0,
        }

    # -- assumptions ---------------------------------------------------------------------
    def assume(self, cond, also_paths=True):
        c = core.as_z3_bool(cond)
        self.assumptions.append(c)
        if also_paths:
            ctx.assume(c)

    # -- low level -----------------------------------------------------------------------
    def _solve(self, conds):
        t0 = time.time()
        s = self.solver
        s.push()
        try:
            for a in self.assumptions:
                s.add(a)
            for a in ctx.assumptions:          # ranges of fresh_range() symbols, harness-level assumptions
                s.add(a)
            for c in conds:
                s.add(c)
            r = s.check()
            m = s.model() if r == z3.sat else None
            smt2 = None
            # sampled queries are re-decided by two other solvers: thorough up to 3 per task; quick at most one per task, with a
            # probability set by run_check so that a run samples a few dozen queries over all its tasks
            if r != z3.unknown and self.xc_task and self.res['xc_tried'] < (3 if self.tier == 'thorough' else 1) and self.rng.random() < 0.5:
                self.res['xc_tried'] += 1
                smt2 = s.to_smt2()
                if len(smt2) > 400000:
                    smt2 = None
        finally:
            s.pop()
        dt = time.time() - t0
        self.res['solver_time'] += dt
        self.res['queries'] += 1
        if smt2 is not None and r != z3.unknown:
            self._crosscheck(smt2, str(r))
        return r, m

    def _crosscheck(self, smt2, verdict):
        """re-decide a sampled query with z3 4.8.12 and cvc5 (binary); disagreement = harness error"""
        with tempfile.NamedTemporaryFile('w', suffix='.smt2', delete=False) as f:
            f.write('(set-logic QF_BV)\n' + smt2)
            path = f.name
        try:
            tl = 60 if self.tier == 'thorough' else 15
            for cmd in (['/usr/bin/z3', '-T:%d' % tl, path], ['cvc5', '--tlimit=%d' % (tl * 1000), path]):
                try:
                    out = subprocess.run(cmd, capture_output=True, text=True, timeout=tl + 10).stdout
                except Exception:
                    continue
                if '(error' in out:
                    continue
                lines = [l.strip() for l in out.splitlines() if l.strip() in ('sat', 'unsat', 'unknown')]
                if lines and lines[0] in ('sat', 'unsat') and lines[0] != verdict:
                    raise HarnessError('solver disagreement on a sampled query: z3py=%s %s=%s' % (verdict, cmd[0], lines[0]))
                if lines and lines[0] == verdict:
                    self.res['crosschecked'] += 1
        finally:
            os.unlink(path)

    def satisfiable(self, conds=()):
        r, m = self._solve([core.as_z3_bool(c) for c in conds])
        return r, m

    # -- obligations ---------------------------------------------------------------------
    def prove(self, name, viol, inputs=None, replay=None, quantities=None, canary=None, sample=None, timeout_s=None):
        """viol: z3 Bool (or SymBool) that is satisfiable iff the property is violated.
        inputs: {name: z3 var} extracted from a model for replay.
        replay(values) -> detail dict if the violation reproduces on the real, unwrapped code,
                          None if it does not.
        quantities: {name: SymInt|int} available to known-finding region expressions.
        canary: a z3 Bool that must be satisfiable (same query against a wrong oracle)."""
        viol = core.as_z3_bool(viol)
        self.res['obligations'] += 1
        trivial = z3.is_false(z3.simplify(viol)) if term_size(viol, 2000) < 2000 else False
        if not trivial:
            self.res['nontrivial'] += 1
        if len(self.res['samples']) < 2:
            self.res['samples'].append({'config': self.config, 'obligation': name,
                                        'query': (sample or viol.sexpr())[:400]})
        if timeout_s:
            self.solver.set('timeout', int(timeout_s * 1000))
        try:
            verdict = self._prove(name, viol, inputs, replay, quantities)
        finally:
            if timeout_s:
                self.solver.set('timeout', int(self.timeout * 1000))
        if canary is not None:
            self.res['canaries'] += 1
            r, m = self._solve([core.as_z3_bool(canary)])
            if r == z3.sat:
                self.res['canaries_ok'] += 1
            elif r == z3.unsat and verdict is True:
                # the obligation was discharged although its witness twin is unsatisfiable: vacuous
                self.res['errors'].append('canary unsat (vacuous harness?) at %s/%s' % (self.config, name))
        return verdict

    def _prove(self, name, viol, inputs, replay, quantities):
        extra = []
        for _round in range(8):
            r, m = self._solve([viol] + extra)
            if r == z3.unsat:
                self.res['discharged'] += 1
                return True
            if r == z3.unknown:
                self.res['inconclusive'].append([self.config, name, 'solver: ' + self.solver.reason_unknown()])
                return None
            values = {k: model_value(m, v) for k, v in (inputs or {}).items()}
            detail = None
            if replay is not None:
                try:
                    detail = replay(values)
                except Exception as e:      # replay itself crashed on the real code
                    detail = {'replay_exception': repr(e)}
                if detail is None:
                    self.res['errors'].append('counterexample did not replay: %s/%s %s' % (self.config, name, values))
                    return None
            ent = self._match_known(name, values, quantities, m)
            rec = {'config': self.config, 'obligation': name, 'inputs': values, 'detail': detail,
                   'known': ent['id'] if ent else None}
            if ent is None:
                self.res['violations'].append(rec)
                return False
            self.res['known_hits'].append(rec)
            # exclude the known region and look for a different violation
            neg = self._region_symbolic(ent, quantities)
            if neg is None:
                return False
            extra.append(z3.Not(neg))
        return False

    def prove_many(self, name, viols, inputs=None, replay=None, quantities=None, timeout_s=None):
        """many small obligations of one kind (e.g. one per explored path): light-weight loop, the first
        satisfiable one goes through the full prove() machinery (replay, known findings)"""
        ok = True
        t0 = time.time()
        try:
            for k, v in enumerate(viols):
                v = core.as_z3_bool(v)
                s = z3.Solver()                 # a fresh (non-incremental) solver is several times faster on small QF_BV queries
                s.set('timeout', int((timeout_s or self.timeout) * 1000))
                for a in self.assumptions:
                    s.add(a)
                for a in ctx.assumptions:
                    s.add(a)
                s.add(v)
                r = s.check()
                self.res['queries'] += 1
                if r == z3.unsat:
                    self.res['obligations'] += 1
                    self.res['discharged'] += 1
                    self.res['nontrivial'] += 1
                    if len(self.res['samples']) < 2:
                        self.res['samples'].append({'config': self.config, 'obligation': '%s [%d/%d]' % (name, k + 1, len(viols)),
                                                    'query': v.sexpr()[:400] if term_size(v, 3000) < 3000 else '(large term)'})
                else:
                    self.res['solver_time'] += time.time() - t0
                    t0 = time.time()
                    if self.prove('%s [%d/%d]' % (name, k + 1, len(viols)), v, inputs=inputs, replay=replay, quantities=quantities,
                                  timeout_s=timeout_s) is not True:
                        ok = False
        finally:
            self.res['solver_time'] += time.time() - t0
        return ok

    def _ns(self, quantities, m=None):
        ns = {'abs': abs, 'min': min, 'max': max}
        for k, v in (quantities or {}).items():
            if m is not None and isinstance(v, (SymInt, SymBool)):
                v = core.eval_value(v, m)
            ns[k] = v
        return ns

    def _match_known(self, name, values, quantities, m):
        for e in self.known:
            if not fnmatch.fnmatch(self.config, e.get('site', '*')):
                continue
            if not fnmatch.fnmatch(name, e.get('obligation', '*')):
                continue
            try:
                ns = self._ns(quantities, m)
                ns.update(values)
                if eval(e.get('region', 'True'), {'__builtins__': {}}, ns):
                    return e
            except Exception:
                continue
        return None

    def _region_symbolic(self, e, quantities):
        expr = e.get('region', 'True')
        if expr.strip() == 'True':
            return None
        try:
            r = eval(expr, {'__builtins__': {}}, self._ns(quantities))
        except Exception:
            return None
        if isinstance(r, bool):
            return None if r else z3.BoolVal(False)
        return core.as_z3_bool(r)

    # -- non-solver findings (structural obligations, e.g. C03) -----------------------------
    def structural(self, name, ok, detail=None):
        self.res['obligations'] += 1
        self.res['nontrivial'] += 1
        if ok:
            self.res['discharged'] += 1
            return True
        ent = self._match_known(name, {}, {}, None)
        rec = {'config': self.config, 'obligation': name, 'inputs': {}, 'detail': detail,
               'known': ent['id'] if ent else None}
        (self.res['known_hits'] if ent else self.res['violations']).append(rec)
        return False

    def inconclusive(self, name, reason):
        self.res['inconclusive'].append([self.config, name, reason])

    def note(self, s):
        if len(self.res['notes']) < 20:
            self.res['notes'].append(s)

    # -- validation of the symbolic terms against a concrete run ---------------------------
    def validate_terms(self, terms, in_vars, concrete_fn, n=2):
        """terms: {name: SymInt|int}; in_vars: {name: z3 var}; concrete_fn(values)->{name:int}"""
        for k in range(n):
            vals = {}
            for name, v in in_vars.items():
                if z3.is_bool(v):
                    vals[name] = self.rng.randint(0, 1)
                else:
                    w = v.size()
                    vals[name] = self.rng.choice([0, (1 << w) - 1, self.rng.getrandbits(w), self.rng.getrandbits(w)])
            # respect assumptions: skip assignments that violate them
            sub = [(in_vars[nm], z3.BoolVal(bool(x)) if z3.is_bool(in_vars[nm]) else z3.BitVecVal(x, in_vars[nm].size()))
                   for nm, x in vals.items()]
            if self.assumptions:
                a = z3.simplify(z3.substitute(z3.And(*self.assumptions), *sub))
                if not z3.is_true(a):
                    r, m = self._solve([])
                    if r != z3.sat:
                        continue
                    vals = {nm: model_value(m, v) for nm, v in in_vars.items()}
                    sub = [(in_vars[nm], z3.BoolVal(bool(x)) if z3.is_bool(in_vars[nm]) else z3.BitVecVal(x, in_vars[nm].size()))
                           for nm, x in vals.items()]
            want = concrete_fn(vals)
            for nm, t in terms.items():
                if nm not in want:
                    continue
                if isinstance(t, SymInt):
                    g = z3.simplify(z3.substitute(t.t, *sub))
                    if not z3.is_bv_value(g):
                        continue
                    g = g.as_signed_long()
                elif isinstance(t, SymBool):
                    g = z3.simplify(z3.substitute(t.b, *sub))
                    g = 1 if z3.is_true(g) else 0
                else:
                    g = int(t)
                if g != int(want[nm]):
                    self.res['errors'].append('symbolic/concrete mismatch %s %s: inputs=%s symbolic=%s concrete=%s'
                                              % (self.config, nm, vals, g, want[nm]))
                    return False
            self.res['traces_validated'] += 1
        return True


# ----------------------------------------------------------------------------------------
# task execution

_WORK = []


def _run_index(i):
    return _run_task(_WORK[i])


def _run_task(args):
    fn, prop, cfg_name, cfg, tier, seed, limit = args
    core.ctx.reset()
    z3.set_param('smt.random_seed', 0)
    p = Prover(prop, cfg_name, tier, seed)
    rec = set()
    t0 = time.time()
    old = signal.signal(signal.SIGALRM, _alarm)
    signal.alarm(int(limit))
    try:
        fn(p, cfg, rec)
    except TaskTimeout:
        signal.alarm(0)
        p.res['inconclusive'].append([cfg_name, '*', 'task wall-clock limit (%ds)' % limit])
    except Unsupported as e:
        p.res['inconclusive'].append([cfg_name, '*', 'unsupported: %s' % e])
    except SymbolicPathError as e:
        p.res['inconclusive'].append([cfg_name, '*', 'exception on a symbolic path: %s' % e])
    except HarnessError as e:
        p.res['errors'].append('%s: %s' % (cfg_name, e))
    except z3.Z3Exception as e:
        p.res['errors'].append('%s: z3 exception %s' % (cfg_name, e))
    except Exception as e:
        p.res['errors'].append('%s: harness crash %s\n%s' % (cfg_name, repr(e), traceback.format_exc()[-1500:]))
    finally:
        signal.alarm(0)
        signal.signal(signal.SIGALRM, old)
    p.res['functions'] = sorted(rec)
    p.res['wall'] = time.time() - t0
    p.res['branch_checks'] = core.ctx.stats.branch_checks
    p.res['branch_solver_time'] = core.ctx.stats.solver_time
    p.res['paths'] = core.ctx.stats.paths
    return p.res


def parse_args(prop, argv=None):
    ap = argparse.ArgumentParser(prog='check ' + prop)
    ap.add_argument('--tier', default=os.environ.get('VERIF_TIER', 'quick'), choices=['quick', 'thorough'])
    ap.add_argument('--replay', default=None)
    ap.add_argument('--jobs', type=int, default=int(os.environ.get('VERIF_JOBS', '0')) or (os.cpu_count() or 4))
    ap.add_argument('--only', default=None, help='substring filter on configuration names')
    ap.add_argument('--seed', type=int, default=int(os.environ.get('VERIF_SEED', '0') or 0))
    ap.add_argument('--list', action='store_true')
    ap.add_argument('--no-evidence', action='store_true')
    return ap.parse_args(argv)


XCHECK_P = [0.05]


def run_check(prop, level, tasks, args, *, design_ref='', assumptions=(), bounds=None, rule='',
              trusted_base=(), extra_coverage=None, task_limit=None, replay_fn=None, technique=''):
    """tasks: list of (name, fn, cfg).  fn(prover, cfg, recorder) runs in a worker."""
    t0 = time.time()
    if args.replay:
        if replay_fn is None:
            print('no replay support for', prop)
            return 2
        with open(args.replay) as f:
            rec = json.load(f)
        d = replay_fn(rec)
        if d is not None:
            print('REPRODUCED property=%s config=%s obligation=%s detail=%s' % (prop, rec.get('config'), rec.get('obligation'), json.dumps(d, default=str)[:600]))
            return 1
        print('not reproduced')
        return 0
    if args.only:
        tasks = [t for t in tasks if args.only in t[0]]
    if args.list:
        for t in tasks:
            print(t[0])
        return 0
    limit = task_limit or (120 if args.tier == 'quick' else 900)
    XCHECK_P[0] = min(1.0, (24.0 if args.tier == 'quick' else 150.0) / max(1, len(tasks)))     # inherited by the forked workers
    work = [(fn, prop, name, cfg, args.tier, args.seed, limit) for name, fn, cfg in tasks]
    results = []
    if args.jobs <= 1 or len(work) <= 1:
        for w in work:
            results.append(_run_task(w))
    else:
        global _WORK
        _WORK = work                       # workers are forked: tasks are inherited, only indices travel
        mp = multiprocessing.get_context('fork')
        with mp.Pool(min(args.jobs, len(work)), maxtasksperchild=50) as pool:
            for r in pool.imap_unordered(_run_index, range(len(work)), chunksize=1):
                results.append(r)
    results.sort(key=lambda r: r['config'])
    return finish(prop, level, results, args, t0, design_ref=design_ref, assumptions=assumptions, bounds=bounds,
                  rule=rule, trusted_base=trusted_base, extra_coverage=extra_coverage, technique=technique)


def finish(prop, level, results, args, t0, *, design_ref='', assumptions=(), bounds=None, rule='',
           trusted_base=(), extra_coverage=None, technique=''):
    tot = lambda k: sum(r.get(k, 0) for r in results)
    violations = [v for r in results for v in r['violations']]
    known_hits = [v for r in results for v in r['known_hits']]
    errors = [e for r in results for e in r['errors']]
    inconclusive = [e for r in results for e in r['inconclusive']]
    functions = sorted(set(f for r in results for f in r['functions']))
    samples = [s for r in results for s in r['samples']][:12]
    notes = [s for r in results for s in r.get('notes', [])][:40]
    known = {e['id']: e for e in load_known(prop)}

    os.makedirs(REPLAY_DIR, exist_ok=True)
    printed = set()
    for v in known_hits:
        if v['known'] not in printed:
            printed.add(v['known'])
            print('KNOWN-FINDING: property=%s %s [%s]' % (prop, known[v['known']].get('what', ''), v['known']))
    vio_paths = []
    for v in violations:
        h = hashlib.sha1(json.dumps([v['config'], v['obligation'], v['inputs']], sort_keys=True, default=str).encode()).hexdigest()[:10]
        path = os.path.join(REPLAY_DIR, '%s_%s.json' % (prop, h))
        with open(path, 'w') as f:
            json.dump({'property': prop, **v}, f, indent=1, default=str)
        vio_paths.append(path)
        print('VIOLATION property=%s replay=%s' % (prop, path))
        print('  config=%s obligation=%s inputs=%s detail=%s' % (v['config'], v['obligation'], json.dumps(v['inputs'], default=str)[:300], json.dumps(v['detail'], default=str)[:300]))
    for e in errors[:20]:
        print('HARNESS-ERROR:', e)
    if inconclusive:
        print('inconclusive obligations/configurations: %d (listed in evidence)' % len(inconclusive))

    wall = time.time() - t0
    cov = {
        'obligations': tot('obligations'),
        'discharged': tot('discharged'),
        'evaluations': max(1, tot('queries')),
        'distinct_nontrivial': tot('nontrivial'),
        'rule': rule or ('one obligation = one solver query "exists inputs/state within the bounds violating the clause"; '
                         'non-trivial = the violation condition does not simplify to false syntactically'),
        'samples': samples or [{'note': 'no obligations generated'}],
        'traces_validated_against_impl': tot('traces_validated'),
        'configurations': len(results),
        'configurations_refused_by_constructor': tot('refused'),
        'inconclusive': len(inconclusive),
        'inconclusive_list': inconclusive[:60],
        'canaries': tot('canaries'),
        'canaries_satisfiable': tot('canaries_ok'),
        'known_finding_hits': len(known_hits),
        'known_findings_seen': sorted(printed),
        'solver': 'z3 %s (python API), QF_BV' % z3.get_version_string(),
        'solver_time_s': round(tot('solver_time') + tot('branch_solver_time'), 3),
        'solver_queries': tot('queries'),
        'path_feasibility_checks': tot('branch_checks'),
        'paths_explored': tot('paths'),
        'crosschecked_queries_cvc5_z3old': tot('crosschecked'),
        'functions_encoded': functions[:400],
        'bounds': bounds or {},
        'trusted_base': list(trusted_base),
        'technique': technique,
        'design_ref': design_ref,
        'notes': notes,
        'slowest_configurations': [[r['config'], round(r.get('wall', 0), 1)] for r in sorted(results, key=lambda r: -r.get('wall', 0))[:8]],
        'harness_errors': errors[:20],
        'exhaustive': False,
    }
    if level == 'translation_validation':
        cov['programs'] = max(1, tot('programs'))
        cov['disagreements_checked'] = tot('disagreements_checked')
        cov['refused_by_generator'] = tot('refused')
    if tot('states'):
        cov['states'] = tot('states')
        cov['transitions'] = max(1, tot('transitions'))
    if extra_coverage:
        cov.update(extra_coverage)
    ev = {
        'property_id': prop,
        'tier': args.tier,
        'seed': args.seed,
        'level': level,
        'coverage': cov,
        'assumptions': list(assumptions),
        'wall_s': round(wall, 2),
        'violations': len(violations),
    }
    if not args.no_evidence and not args.only:
        os.makedirs(EVIDENCE_DIR, exist_ok=True)
        with open(os.path.join(EVIDENCE_DIR, prop + '.json'), 'w') as f:
            json.dump(ev, f, indent=1, default=str)
    print('%s %s: %d configurations, %d/%d obligations discharged, %d inconclusive, %d known-finding hits, %d violations, '
          '%d canaries ok/%d, %d traces validated, solver %.1fs, wall %.1fs'
          % (prop, args.tier, len(results), cov['discharged'], cov['obligations'], len(inconclusive), len(known_hits),
             len(violations), cov['canaries_satisfiable'], cov['canaries'], cov['traces_validated_against_impl'],
             cov['solver_time_s'], wall))
    if violations:
        return 1                 # replayed violations stand, whatever else went wrong elsewhere in the run (harness errors are printed above)
    if errors:
        return 2
    return 0
