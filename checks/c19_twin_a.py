"""two behavioural classes that share their __name__ (see c19_twin_b.py): the source of a transpiled method must come from the
class of the object, never from another class that happens to have the same name"""
import py4hw


class Stage(py4hw.Logic):
    def __init__(self, parent, name, a, b, r):
        super().__init__(parent, name)
        self.a = self.addIn('a', a)
        self.b = self.addIn('b', b)
        self.r = self.addOut('r', r)

    def propagate(self):
        self.r.put(self.a.get() + self.b.get())


class Tick(py4hw.Logic):
    def __init__(self, parent, name, a, q):
        super().__init__(parent, name)
        self.a = self.addIn('a', a)
        self.q = self.addOut('q', q)
        self.n = 0

    def clock(self):
        self.n = self.n + 1
        self.q.prepare(self.a.get() ^ 1)
