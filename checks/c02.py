"""
C02 -- Python-to-Verilog transpilation preserves the behaviour of behavioural blocks.

Programs: (i) the behavioural blocks of the library, (ii) a seeded grammar-generated family of
classes written to a scratch package (so inspect.getsource works), (iii) programs with one
unsupported construct each (must be refused, or be translated to equivalent Verilog).
Per program: real transpiler -> text -> E2 -> step_v(state, inputs); the real Python
clock()/propagate() is executed symbolically (E1) from a symbolic state -> step_p; the solver
searches a state and inputs inside the stated value domain with different outputs or next
state.  Initial values are compared as well, so one step covers every input sequence.
"""
import ast
import importlib
import inspect
import io
import os
import random
import shutil
import sys
import textwrap
import types

import z3

from . import common
from .comb import quiet
from . import designs as D
from .vequiv import generate
from symx import core, symsim
from symx.core import ctx, SymInt, SymBool

import py4hw
from py4hw.base import Logic, Wire
from vlog import elab
from vlog.parser import VlogUnsupported, VlogSyntaxError

PROP = 'C02'
SCRATCH = os.path.join(common.ROOT, '.scratch')


# ---------------------------------------------------------------------------------------------------
# program generator

class Gen:
    def __init__(self, rnd, kind, focus=None):
        self.rnd = rnd
        self.kind = kind                  # 'clock' or 'propagate'
        self.focus = focus
        self.ins = [('a', rnd.choice([1, 4, 8])), ('b', rnd.choice([4, 8, 32])), ('c', 1)]
        self.outs = [('r', rnd.choice([4, 8, 32])), ('s', rnd.choice([1, 4]))]
        self.states = [('st', rnd.randint(0, 3)), ('cnt', rnd.randint(0, 9))] if kind == 'clock' else []
        self.k = rnd.choice([1, 2, 3, 5, 10])
        self.locals = []
        self.nloc = 0

    BIN = ['+', '-', '*', '//', '%', '&', '|', '^', '<<', '>>']
    CMP = ['==', '!=', '<', '<=', '>', '>=']

    def leaf(self):
        r = self.rnd
        opts = ['self.%s.get()' % n for n, w in self.ins] + ['self.%s' % n for n, v in self.states] + list(self.locals)
        opts += [str(r.choice([0, 1, 2, 3, 7, 15, 255])), 'self.k']
        return r.choice(opts)

    def expr(self, depth):
        r = self.rnd
        if depth <= 0 or r.random() < 0.3:
            return self.leaf()
        c = r.random()
        if self.focus in self.BIN and c < 0.5:
            op = self.focus
        else:
            op = r.choice(self.BIN)
        if c < 0.75:
            a, b = self.expr(depth - 1), self.expr(depth - 1)
            if op in ('<<', '>>'):
                b = str(r.choice([0, 1, 2, 3, 4]))
            if op in ('//', '%'):
                b = r.choice(['self.k', str(r.choice([1, 2, 3, 7]))])
            return '(%s %s %s)' % (a, op, b)
        if c < 0.8:
            return '(~%s)' % self.expr(depth - 1)
        if c < 0.9:
            return '(%s if %s else %s)' % (self.expr(depth - 1), self.cond(depth - 1), self.expr(depth - 1))
        return '(%s %s %s)' % (self.expr(depth - 1), r.choice(self.CMP), self.expr(depth - 1))

    def cond(self, depth):
        r = self.rnd
        c = r.random()
        if depth <= 0 or c < 0.40:
            return '%s %s %s' % (self.expr(max(depth - 1, 0)), r.choice(self.CMP), self.expr(max(depth - 1, 0)))
        if c < 0.5:
            # a flat chain of 3..5 operands (one ast.BoolOp with several values)
            n = r.randint(3, 5)
            op = r.choice([' and ', ' or '])
            return op.join('(%s)' % self.cond(0) for _ in range(n))
        if c < 0.6:
            return '(%s) and (%s)' % (self.cond(depth - 1), self.cond(depth - 1))
        if c < 0.75:
            return '(%s) or (%s)' % (self.cond(depth - 1), self.cond(depth - 1))
        if c < 0.85:
            return 'not (%s)' % self.cond(depth - 1)
        return self.expr(depth - 1)

    def stmt(self, depth, ind):
        r = self.rnd
        pad = '    ' * ind
        c = r.random()
        put = 'prepare' if self.kind == 'clock' else 'put'
        if depth <= 0 or c < 0.45:
            k = r.random()
            if k < 0.45:
                o = r.choice(self.outs)[0]
                return ['%sself.%s.%s(%s)' % (pad, o, put, self.expr(2))]
            if k < 0.75 and self.states:
                s_ = r.choice(self.states)[0]
                return ['%sself.%s = %s' % (pad, s_, self.expr(2))]
            name = 't%d' % self.nloc
            self.nloc += 1
            line = '%s%s = %s' % (pad, name, self.expr(2))
            self.locals.append(name)
            return [line]
        if c < 0.8:
            saved = list(self.locals)
            lines = ['%sif %s:' % (pad, self.cond(2))]
            lines += self.block(depth - 1, ind + 1)
            self.locals = list(saved)
            if r.random() < 0.4:
                lines += ['%selif %s:' % (pad, self.cond(1))]
                lines += self.block(depth - 1, ind + 1)
                self.locals = list(saved)
            if r.random() < 0.6:
                lines += ['%selse:' % pad]
                lines += self.block(depth - 1, ind + 1)
                self.locals = list(saved)
            return lines
        if self.kind == 'clock' and self.states:
            saved = list(self.locals)
            subj = r.choice(['self.st', 'self.%s.get()' % self.ins[0][0]])
            lines = ['%smatch %s:' % (pad, subj)]
            for v in r.sample([0, 1, 2, 3], r.randint(1, 3)):
                guard = ' if %s' % self.cond(1) if r.random() < 0.25 else ''
                lines += ['%s    case %d%s:' % (pad, v, guard)]
                lines += self.block(depth - 1, ind + 2)
                self.locals = list(saved)
            if r.random() < 0.6:
                lines += ['%s    case _:' % pad]
                lines += self.block(depth - 1, ind + 2)
                self.locals = list(saved)
            return lines
        return self.stmt(0, ind)

    def block(self, depth, ind):
        lines = []
        for _ in range(self.rnd.randint(1, 2)):
            lines += self.stmt(depth, ind)
        return lines

    def source(self, cname):
        body = []
        for _ in range(self.rnd.randint(1, 3)):
            body += self.stmt(2, 2)
        return self.wrap(cname, body)

    def wrap(self, cname, body_lines):
        args = ', '.join(n for n, w in self.ins + self.outs)
        L = ['from py4hw.base import *', '', '', 'class %s(Logic):' % cname,
             '    def __init__(self, parent, name, %s, k):' % args,
             '        super().__init__(parent, name)']
        for n, w in self.ins:
            L.append("        self.%s = self.addIn('%s', %s)" % (n, n, n))
        for n, w in self.outs:
            L.append("        self.%s = self.addOut('%s', %s)" % (n, n, n))
        for n, v in self.states:
            L.append('        self.%s = %r' % (n, v))
        L.append('        self.k = k')
        L.append('')
        L.append('    def %s(self):' % self.kind)
        L += body_lines
        return '\n'.join(L) + '\n'


UNSUPPORTED = {
    'for loop': ['        t = 0', '        for i in range(3):', '            t = t + self.a.get()', '        self.r.prepare(t)'],
    'while loop': ['        t = self.a.get()', '        while t > 3:', '            t = t - 1', '        self.r.prepare(t)'],
    'chained comparison': ['        if 1 < self.a.get() < 9:', '            self.r.prepare(1)', '        else:', '            self.r.prepare(0)'],
    'power operator': ['        self.r.prepare(self.a.get() ** 2)'],
    'true division': ['        self.r.prepare(self.b.get() / 2)'],
    'tuple assignment': ['        x, y = self.a.get(), self.b.get()', '        self.r.prepare(x + y)'],
    'two targets': ['        x = y = self.a.get()', '        self.r.prepare(x + y)'],
    'tuple assignment (swap of two state variables)': ['        self.st, self.cnt = self.cnt, self.st + self.a.get()', '        self.r.prepare(self.cnt)'],
    'tuple assignment reading an earlier target': ['        x, y = self.a.get(), self.b.get()', '        x, y = y, x + y', '        self.r.prepare(x)', '        self.st = y'],
    'tuple assignment of independent values': ['        self.st, self.cnt = self.a.get(), self.b.get()', '        self.r.prepare(self.st)'],
    'two targets, the value read back from the first': ['        self.st = self.cnt = self.st + self.a.get()', '        self.r.prepare(self.cnt)'],
    'three targets with a local in the middle': ['        self.cnt = t = self.st = self.cnt + self.b.get() + 1', '        self.r.prepare(t)'],
    'two targets on a port and a state': ['        x = self.st = self.st ^ self.a.get()', '        self.r.prepare(x)', '        self.s.prepare(self.st & 1)'],
    'subscript': ['        t = [1, 2, 3]', '        self.r.prepare(t[self.c.get()])'],
    'call abs': ['        self.r.prepare(abs(self.a.get() - self.b.get()))'],
    'call min': ['        self.r.prepare(min(self.a.get(), self.b.get()))'],
    'float constant': ['        self.r.prepare(self.a.get() * 1.5)'],
    'and used as a value': ['        self.r.prepare(self.a.get() and self.b.get())'],
    'or used as a value': ['        self.r.prepare(self.a.get() or self.b.get())'],
    'augmented assignment of state': ['        self.st += self.a.get()', '        self.r.prepare(self.st)'],
    'ternary inside a call': ['        self.r.prepare(self.a.get() if self.c.get() else self.b.get())'],
    'walrus': ['        if (t := self.a.get()) > 2:', '            self.r.prepare(t)'],
    'string constant': ["        t = 'x'", '        self.r.prepare(1)'],
    'negative constant': ['        self.r.prepare(self.b.get() + (-1))'],
    'is comparison': ['        if self.a.get() is 0:', '            self.r.prepare(1)'],
    'in comparison': ['        if self.a.get() in (1, 2):', '            self.r.prepare(1)'],
    'bool constant': ['        self.s.prepare(True)', '        self.r.prepare(False)'],
    'nested function': ['        def f(x):', '            return x + 1', '        self.r.prepare(f(self.a.get()))'],
    'comparison chain with and': ['        if self.a.get() > 1 and self.b.get() > 2 and self.c.get():', '            self.r.prepare(3)',
                                  '        else:', '            self.r.prepare(4)'],
    'state read after write': ['        self.st = self.a.get()', '        self.cnt = self.st + 1', '        self.r.prepare(self.cnt)'],
    'local shadowing a port name': ['        a = 3', '        self.r.prepare(a + self.a.get())'],
    'match with or-pattern': ['        match self.st:', '            case 0 | 1:', '                self.r.prepare(1)', '            case _:',
                              '                self.r.prepare(2)'],
    'pass statement': ['        if self.c.get():', '            pass', '        else:', '            self.r.prepare(2)'],
    'return in the middle': ['        if self.c.get():', '            return', '        self.r.prepare(2)'],
}


def match_shapes():
    """every placement of guards over 1..3 value cases and an absent / plain / guarded default"""
    guards = ['self.b.get() > self.k', 'self.c.get()', 'self.st == 1']
    out = {}
    for nv in (1, 2, 3):
        for mask in range(1 << nv):
            for dflt in ('none', 'plain', 'guarded'):
                body = ['        match self.a.get():']
                for i in range(nv):
                    g = (' if %s' % guards[i]) if (mask >> i) & 1 else ''
                    body += ['            case %d%s:' % (i + 1, g), '                self.r.prepare(%d)' % (10 + i), '                self.st = %d' % (i % 2)]
                if dflt != 'none':
                    g = ' if self.b.get() != 3' if dflt == 'guarded' else ''
                    body += ['            case _%s:' % g, '                self.r.prepare(77)', '                self.cnt = 3']
                out['match with %d value cases, guards on %s, default %s' % (nv, [i + 1 for i in range(nv) if (mask >> i) & 1] or 'none', dflt)] = body
    return out


def write_programs(tier, seed):
    """writes the generated classes and returns [(name, module, class, kind, meta)]"""
    quick = tier == 'quick'
    d = os.path.join(SCRATCH, 'c02_%s_%d' % (tier, seed))
    if os.path.isdir(d):
        shutil.rmtree(d)
    os.makedirs(d)
    progs = []
    n = 150 if quick else 1500
    focus_list = [None] + Gen.BIN + Gen.CMP
    for k in range(n):
        rnd = random.Random('%s/%d/%d' % (tier, seed, k))
        kind = 'clock' if k % 4 else 'propagate'
        g = Gen(rnd, kind, focus_list[k % len(focus_list)])
        mod = 'p%04d' % k
        src = g.source('P')
        with open(os.path.join(d, mod + '.py'), 'w') as f:
            f.write(src)
        progs.append(('generated #%d (%s, focus %s)' % (k, kind, g.focus), mod, kind, {'ins': g.ins, 'outs': g.outs, 'states': g.states, 'k': g.k}))
    for j, (label, body) in enumerate(match_shapes().items()):
        rnd = random.Random('m/%d' % j)
        g = Gen(rnd, 'clock')
        g.ins, g.outs = [('a', 4), ('b', 8), ('c', 1)], [('r', 8), ('s', 1)]
        g.states = [('st', 1), ('cnt', 2)]
        mod = 'm%03d' % j
        with open(os.path.join(d, mod + '.py'), 'w') as f:
            f.write(g.wrap('P', body))
        progs.append(('directed: %s' % label, mod, 'clock', {'ins': g.ins, 'outs': g.outs, 'states': g.states, 'k': 3}))
    # state attributes initialised with True/False and later used as numbers
    for j, (label, states, body) in enumerate([
            ('flag initialised with False, later holds a multi-bit value', [('st', False), ('cnt', 2)],
             ['        self.st = self.b.get() & 6', '        if self.st:', '            self.s.prepare(1)', '        else:', '            self.s.prepare(0)',
              '        self.r.prepare(self.st)']),
            ('flag initialised with True, accumulates', [('st', True), ('cnt', 0)],
             ['        self.r.prepare(self.st + self.cnt)', '        self.cnt = self.st + self.a.get()', '        self.st = self.c.get()']),
            ('two flags and a counter', [('st', False), ('cnt', True)],
             ['        if self.c.get():', '            self.st = self.cnt', '            self.cnt = self.a.get()', '        self.r.prepare(self.st | self.cnt)'])]):
        rnd = random.Random('b/%d' % j)
        g = Gen(rnd, 'clock')
        g.ins, g.outs = [('a', 4), ('b', 8), ('c', 1)], [('r', 8), ('s', 1)]
        g.states = states
        mod = 'b%03d' % j
        with open(os.path.join(d, mod + '.py'), 'w') as f:
            f.write(g.wrap('P', body))
        progs.append(('directed: %s' % label, mod, 'clock', {'ins': g.ins, 'outs': g.outs, 'states': g.states, 'k': 3}))
    # state values with bit 31 set (inside the statement's "at most 32 bits"): only operations whose Verilog meaning does not
    # depend on the sign of a 32-bit integer variable (shifts, bitwise operators, equality); comparisons and divisions of such
    # values are outside the claim (see DESIGN.md)
    for j, (label, body) in enumerate([
            ('32-bit state shifted right', ['        self.st = self.st >> 1', '        self.r.prepare(self.st ^ self.a.get())']),
            ('32-bit state: equality, xor, shifts by a port',
             ['        if self.st == self.cnt:', '            self.s.prepare(1)', '        else:', '            self.s.prepare(0)',
              '        self.st = self.st ^ (self.b.get() << 24)', '        self.cnt = self.cnt >> (self.c.get() + 1)']),
            ('32-bit state: shift in from the top', ['        self.st = (self.st >> 4) | (self.b.get() << 24)', '        self.r.prepare(self.st >> 28)'])]):
        rnd = random.Random('w/%d' % j)
        g = Gen(rnd, 'clock')
        g.ins, g.outs = [('a', 4), ('b', 8), ('c', 1)], [('r', 8), ('s', 1)]
        g.states = [('st', 1), ('cnt', 2)]
        mod = 'w%03d' % j
        with open(os.path.join(d, mod + '.py'), 'w') as f:
            f.write(g.wrap('P', body))
        progs.append(('directed: %s' % label, mod, 'clock', {'ins': g.ins, 'outs': g.outs, 'states': g.states, 'k': 3, 'wide': True}))
    for j, (label, body) in enumerate(UNSUPPORTED.items()):
        rnd = random.Random('u/%d' % j)
        g = Gen(rnd, 'clock')
        g.ins, g.outs = [('a', 4), ('b', 8), ('c', 1)], [('r', 8), ('s', 1)]
        g.states = [('st', 1), ('cnt', 2)]
        mod = 'u%03d' % j
        with open(os.path.join(d, mod + '.py'), 'w') as f:
            f.write(g.wrap('P', body))
        progs.append(('unsupported construct: %s' % label, mod, 'clock', {'ins': g.ins, 'outs': g.outs, 'states': g.states, 'k': 3, 'refusal': True}))
    return d, progs


# ---------------------------------------------------------------------------------------------------
# equivalence of one behavioural block

def state_attrs(obj):
    """integer attributes that the constructor assigned (state / constants)"""
    return {k: int(v) for k, v in obj.__dict__.items() if isinstance(v, int)}        # a flag initialised with True/False is state too


class _WrapLiterals(ast.NodeTransformer):
    """int literal n -> _K_(n) (a point-interval symbol), so that arithmetic between constants is seen by the
    value-domain listener as well; match patterns stay literal"""
    def visit_Constant(self, node):
        if isinstance(node.value, int) and not isinstance(node.value, bool):
            return ast.copy_location(ast.Call(ast.Name('_K_', ast.Load()), [node], []), node)
        return node

    def visit_match_case(self, node):
        if node.guard is not None:
            node.guard = self.visit(node.guard)
        node.body = [self.visit(b) for b in node.body]
        return node


def _K(n):
    return core.mk(z3.BitVecVal(n, core.sbits(n, n)), n, n)


def wrap_literals(obj, kind):
    """the bound method `kind` of obj, recompiled from its own source with literals wrapped"""
    fn = getattr(type(obj), kind)
    tree = ast.parse(textwrap.dedent(inspect.getsource(fn)))
    tree = ast.fix_missing_locations(_WrapLiterals().visit(tree))
    ns = dict(fn.__globals__)
    ns['_K_'] = _K
    exec(compile(tree, '<%s.%s with wrapped literals>' % (type(obj).__name__, kind), 'exec'), ns)
    return types.MethodType(ns[fn.__name__], obj)


def behav_task(p, cfg, rec):
    mk = cfg['mk']
    refusal = cfg.get('refusal', False)
    if cfg.get('prime') is not None:
        # another instance of the SAME class with a different constructor constant is transpiled first, in the same process
        with quiet():
            try:
                generate(cfg['prime'](py4hw.HWSystem()))
            except Exception:
                pass
    with quiet():
        s = py4hw.HWSystem()
        try:
            obj = mk(s)
        except Exception as e:
            p.res['refused'] += 1
            p.note('%s: constructor refused: %r' % (p.config, e))
            return
    kind = 'clock' if callable(getattr(type(obj), 'clock', None)) else 'propagate'
    text, exc = generate(obj)
    p.res['programs'] += 1
    if text is None:
        p.res['refused'] += 1
        p.note('%s: transpiler refused: %r' % (p.config, str(exc)[:120]))
        if refusal:
            p.structural('unsupported construct is refused with an error', True)
        return
    try:
        d = elab.load(text)
    except VlogSyntaxError as e:
        p.note('%s: emitted text does not parse (counted under C03): %s' % (p.config, e))
        p.inconclusive('elaboration', 'text does not parse (C03): %s' % e)
        return
    except VlogUnsupported as e:
        p.inconclusive('elaboration', 'front end: %s' % e)
        return
    if d.fatal or any(not ok for _, ok, _ in d.obligations):
        bad = [n for n, ok, _ in d.obligations if not ok][:3]
        p.note('%s: emitted text does not elaborate (counted under C03): %s %s' % (p.config, d.fatal, bad))
        p.inconclusive('elaboration', 'text does not elaborate (C03, not silent): %s %s' % (d.fatal, bad))
        return
    ins = {q.name: q.wire for q in obj.inPorts}
    outs = {q.name: q.wire for q in obj.outPorts}
    attrs = state_attrs(obj)
    vstate_nets = dict(elab.Sim(d, {}, None).state_nets())
    # --- state correspondence
    corr = {}
    temps = []
    for vn, w in vstate_nets.items():
        if vn in outs:
            corr[vn] = ('wire', outs[vn])
        elif vn in attrs:
            corr[vn] = ('attr', vn)
        else:
            temps.append(vn)          # a Python local: arbitrary previous content, not compared
    narrow = {vn: vstate_nets[vn] for vn, (k, x) in corr.items() if k == 'attr' and vstate_nets[vn] < 32}
    p.structural('no integer state attribute is declared narrower than the 32 bits of its value domain', not narrow, detail={'declared widths': narrow})
    if narrow:
        return
    if any(vstate_nets[vn] > 32 for vn, (k, x) in corr.items() if k == 'attr'):
        p.inconclusive('state', 'state variable wider than 32 bits (outside the harness)')
        return
    # --- initial values
    vinit = elab.Sim(d, {}, None).state
    diff = {}
    for vn, (k, x) in corr.items():
        pv = x.value if k == 'wire' else attrs[vn]
        vv = z3.simplify(vinit[vn]).as_long()
        vv_s = vv - (1 << 32) if (k == 'attr' and vv >> 31) else vv
        if pv != vv_s:
            diff[vn] = {'python': pv, 'verilog': vv_s}
    p.structural('initial values of state variables and outputs agree', not diff, detail=diff)
    # --- one symbolic step
    symsim.instrument(s, rec)
    with quiet():
        sim = s.getSimulator()
    allv = {}
    V = {}
    in_dom = []
    for n, w in ins.items():
        x, v = core.fresh('i_' + n, w.getWidth())
        w.put(x)
        V[n] = v
        allv['in:' + n] = v
        if w.getWidth() >= 32 and not cfg.get('wide'):
            in_dom.append(z3.ULT(v, z3.BitVecVal(1 << 31, v.size())))      # an input value is a Python value too
    vstate = {}
    for vn, (k, x) in corr.items():
        if k == 'wire':
            sym, v = core.fresh('s_' + vn, x.getWidth())
            x.value = sym
            vstate[vn] = v
        elif vn in cfg.get('ranges', {}):
            lo, hi = cfg['ranges'][vn]                        # documented range of a library block's state attribute
            sym, v = core.fresh_range('s_' + vn, lo, hi)
            setattr(obj, vn, sym)
            vstate[vn] = z3.SignExt(32 - v.size(), v) if v.size() < 32 else v
        elif cfg.get('wide'):
            sym, v = core.fresh('s_' + vn, 32)              # the full 32 bits of the statement's domain (see `wide` below)
            setattr(obj, vn, sym)
            vstate[vn] = v
        else:
            sym, v = core.fresh('s_' + vn, 31)              # 0 <= value < 2**31 (Verilog integer is signed 32 bit)
            setattr(obj, vn, sym)
            vstate[vn] = z3.ZeroExt(1, v)
        allv['st:' + vn] = v
    for vn in temps:
        v = z3.BitVec('tmp_' + vn, vstate_nets[vn])
        vstate[vn] = v
        allv['tmp:' + vn] = v
    # attributes that are not Verilog state (constants such as self.k) stay concrete
    dom = []

    top = (1 << 32) if cfg.get('wide') else (1 << 31)

    def listen(r):
        pc = ctx.full_pc()
        c = z3.And(core.as_z3_bool(r >= 0), core.as_z3_bool(r < top))
        dom.append(z3.Implies(z3.And(*pc), c) if pc else c)
    ctx.listeners.append(listen)
    ctx.keep_symbolic = True
    try:
        # constants take part in the value domain too: literals and constant attributes become point symbols
        shell = obj.__dict__.get(kind)
        if isinstance(shell, symsim.LeafShell):
            shell.orig = wrap_literals(obj, kind)
        for an, av in attrs.items():
            if an not in corr:
                setattr(obj, an, _K(av))
        with quiet():
            if kind == 'clock':
                sim.clk(1)
            else:
                sim.propagateAll()
    finally:
        ctx.listeners.remove(listen)
        ctx.keep_symbolic = False
    post = {}
    for vn, (k, x) in corr.items():
        post[vn] = x.value if k == 'wire' else getattr(obj, vn)
    vins = {n: v for n, v in V.items()}
    vins['clk'] = z3.BitVecVal(0, 1)
    try:
        vs = elab.Sim(d, vins, vstate)
        if kind == 'clock':
            nxt = vs.step()
        else:
            nxt = {vn: vs.value(vn) for vn in corr}
    except VlogUnsupported as e:
        p.inconclusive('step', 'front end: %s' % e)
        return
    for g in vs.div_guards:
        dom.append(g)
    dom.extend(in_dom)
    dom.extend(vs.width_guards)        # the domain Verilog gives each intermediate: + - * << do not wrap at their context width
    # stored values stay below 2**31
    for vn, (k, x) in corr.items():
        if k == 'attr':
            c = post[vn] < top
            dom.append(core.as_z3_bool(c) if not isinstance(c, bool) else z3.BoolVal(c))
            c = post[vn] >= 0
            dom.append(core.as_z3_bool(c) if not isinstance(c, bool) else z3.BoolVal(c))
    conds = []
    for vn, (k, x) in corr.items():
        w = nxt[vn].size()
        conds.append(core.to_term(post[vn], w + 1) != z3.ZeroExt(1, nxt[vn]))
    for c in dom:
        p.assume(c, also_paths=False)
    rs, _m = p.satisfiable([])
    if rs == z3.unsat:
        p.inconclusive('domain', 'no state/input keeps every intermediate value inside the stated domain (program is outside the claim)')
        return

    def replay(values):
        with quiet():
            s2 = py4hw.HWSystem()
            o2 = mk(s2)
            sm = s2.getSimulator()
            for n, w in {q.name: q.wire for q in o2.inPorts}.items():
                w.put(values.get('in:' + n, 0))
            o2outs = {q.name: q.wire for q in o2.outPorts}
            cst = {vn: z3.BitVecVal(values.get('tmp:' + vn, 0), vstate_nets[vn]) for vn in temps}
            for vn, (k, x) in corr.items():
                val = values.get('st:' + vn, 0)
                if k == 'wire':
                    o2outs[vn].value = val
                    cst[vn] = z3.BitVecVal(val, vstate_nets[vn])
                else:
                    setattr(o2, vn, val)
                    cst[vn] = z3.BitVecVal(val, 32)
            try:
                if kind == 'clock':
                    sm.clk(1)
                else:
                    sm.propagateAll()
            except Exception as e:
                return {'python raised': repr(e)}
            ci = {n: z3.BitVecVal(values.get('in:' + n, 0), V[n].size()) for n in V}
            ci['clk'] = z3.BitVecVal(0, 1)
            cs = elab.Sim(d, ci, cst)
            cn = cs.step() if kind == 'clock' else {vn: cs.value(vn) for vn in corr}
            out = {}
            for vn, (k, x) in corr.items():
                pv = o2outs[vn].value if k == 'wire' else getattr(o2, vn)
                vv = z3.simplify(cn[vn]).as_long()
                if pv != vv:
                    out[vn] = {'python': pv, 'verilog': vv}
            return {'differences': out, 'verilog': text[-600:]} if out else None
    r = p.prove('one step from any in-domain state: outputs and next state equal (%d variables)' % len(corr),
                z3.Or(*conds) if conds else z3.BoolVal(False), inputs=allv, replay=replay)
    p.res['disagreements_checked'] += 1
    p.res['states'] += 1
    if refusal and r:
        p.note('%s: accepted by the transpiler and proved equivalent' % p.config)


def lib_builders():
    from .c05 import leaf_builders
    B = leaf_builders()
    keep = ['py4hw.logic.clock.AutoReset', 'py4hw.logic.protocol.uart.clock.ClockSyncFSM', 'py4hw.logic.protocol.uart.serdes.UARTSerializer',
            'py4hw.logic.protocol.uart.serdes.UARTDeserializer', 'py4hw.emulation.HILWrapperUART.CMDRequest',
            'py4hw.emulation.HILWrapperUART.CMDResponse', 'py4hw.emulation.vitiswrapping.Axi2ClkFSM',
            'py4hw.emulation.vitiswrapping.VitisKernelFSM']
    out = []
    for k in keep:
        for vname, mk, ranges in B[k]:
            out.append(('library %s %s' % (k.split('.')[-1], vname), mk, ranges))
    from py4hw.logic.storage import Latch
    out.append(('library Latch', lambda s: Latch(s, 'dut', s.wire('d', 4), s.wire('q', 4), s.wire('e')), {}))
    return out


def tasks_for(tier, seed):
    t = []
    for name, mk, ranges in lib_builders():
        t.append((name, behav_task, {'mk': mk, 'ranges': ranges}))
    d, progs = write_programs(tier, seed)
    if d not in sys.path:
        sys.path.insert(0, d)
    for j, (name, mod, kind, meta) in enumerate(progs):
        def mk(s, mod=mod, meta=meta, dk=0):
            m = importlib.import_module(mod)
            wires = [s.wire(n, w) for n, w in meta['ins'] + meta['outs']]
            return m.P(s, 'dut', *wires, meta['k'] + dk)
        prime = None
        if j % 2 and not meta.get('refusal', False):
            # every other program: a sibling instance with another constructor constant goes through the transpiler first
            prime = (lambda s, mk=mk: mk(s, dk=3))
            name += ' [after a sibling instance with another constructor constant]'
        t.append((name, behav_task, {'mk': mk, 'refusal': meta.get('refusal', False), 'wide': meta.get('wide', False), 'prime': prime}))
    return t, d


def main(argv=None):
    args = common.parse_args(PROP, argv)
    tasks, d = tasks_for(args.tier, args.seed)
    try:
        return common.run_check(
            PROP, 'translation_validation', tasks, args, design_ref='DESIGN.md section 3 (C02)',
            technique='SMT equivalence checking (z3 QF_BV): transpiled always-block module (E2) versus symbolic execution of the real Python clock()/propagate() from a symbolic state; initial values compared; one inductive step covers all input sequences',
            assumptions=['value domain: every intermediate Python value (inputs, constants and results alike) is >= 0 and < 2**31 (a Verilog integer is a signed 32-bit variable, so arithmetic between integers is signed), and no + - * << of the emitted text wraps at the width IEEE 1364 gives that expression on the executed path (e.g. a 1-bit plus a 4-bit port inside an if condition is a 4-bit sum)', 'divisors non-zero',
                         'text that does not parse/elaborate is a C03 matter (a downstream tool refuses it, so it is not silent) and is listed as inconclusive here'],
            bounds={'programs': 'library behavioural blocks + %d grammar-generated programs (if/elif/else, match/case, ternary, and/or/not, comparisons, + - * // %% & | ^ ~ << >>, locals, state, constants) + %d directed match/case shapes (every guard placement over 1..3 value cases, default absent/plain/guarded) + %d single-construct refusal probes'
                    % (150 if args.tier == 'quick' else 1500, len(match_shapes()), len(UNSUPPORTED)), 'widths': '1,4,8,32'},
            trusted_base=['z3', 'symx', 'vlog front end'])
    finally:
        shutil.rmtree(d, ignore_errors=True)


if __name__ == '__main__':
    sys.exit(main())
