"""
C08 -- logic, selection and comparison blocks implement their truth tables exactly.
Same scheme as C07: real block on fresh symbols, outputs proved equal to truth-table
references written on z3 terms.
"""
import itertools
import sys

import z3

from . import common
from .comb import comb_task, zx, sx

import py4hw
from py4hw.logic.bitwise import *          # noqa
from py4hw.logic.relational import *       # noqa

PROP = 'C08'


def W(s, name, w):
    return s.wire(name, w)


def b1(c):
    return z3.If(c, z3.BitVecVal(1, 1), z3.BitVecVal(0, 1))


def cfgs(tier):
    quick = tier == 'quick'
    ws = [1, 2, 3, 4, 8] if quick else [1, 2, 3, 4, 5, 6, 8, 12]

    # ---- n-ary gates ---------------------------------------------------------------------
    def nary(cls, n, w, fn):
        def build(s):
            ins = {'i%d' % k: W(s, 'i%d' % k, w) for k in range(n)}
            r = W(s, 'r', w)
            cls(s, 'dut', list(ins.values()), r)
            return ins, {'r': r}

        def spec(V):
            t = V['i0']
            for k in range(1, n):
                t = fn(t, V['i%d' % k])
            return {'r': t}
        return {'build': build, 'spec': spec}

    for w in ws:
        for n in range(1, 7 if quick else 9):
            yield 'And n%d w%d' % (n, w), nary(And, n, w, lambda a, b: a & b)
            yield 'Or n%d w%d' % (n, w), nary(Or, n, w, lambda a, b: a | b)
            if n >= 2:
                yield 'Xor n%d w%d' % (n, w), nary(Xor, n, w, lambda a, b: a ^ b)
            c = nary(Nor, n, w, lambda a, b: a | b)
            sp = c['spec']
            c = dict(c, spec=(lambda sp: lambda V: {'r': ~sp(V)['r']})(sp))
            yield 'Nor n%d w%d' % (n, w), c

    # ---- 2-input gates, mixed widths for and/or (zero extension), equal widths otherwise ------------
    def gate2(cls, aw, bw, rw, fn):
        def build(s):
            a, b, r = W(s, 'a', aw), W(s, 'b', bw), W(s, 'r', rw)
            cls(s, 'dut', a, b, r)
            return {'a': a, 'b': b}, {'r': r}
        n = max(aw, bw, rw)
        return {'build': build, 'spec': lambda V: {'r': z3.Extract(rw - 1, 0, fn(zx(V['a'], n), zx(V['b'], n)))}}

    for aw, bw, rw in itertools.product(ws, ws, ws):
        if quick and len({aw, bw, rw}) == 3:
            continue
        yield 'And2 a%d b%d r%d' % (aw, bw, rw), gate2(And2, aw, bw, rw, lambda a, b: a & b)
        yield 'Or2 a%d b%d r%d' % (aw, bw, rw), gate2(Or2, aw, bw, rw, lambda a, b: a | b)
    for w in ws:
        yield 'Xor2 w%d' % w, gate2(Xor2, w, w, w, lambda a, b: a ^ b)
        yield 'Nand2 w%d' % w, gate2(Nand2, w, w, w, lambda a, b: ~(a & b))
        yield 'Nor2 w%d' % w, gate2(Nor2, w, w, w, lambda a, b: ~(a | b))

    # a ^ b with operands and result of different widths: operands zero-extended, result zero-extended / truncated
    for aw, bw, rw in ((4, 4, 8), (2, 4, 6), (4, 2, 3), (1, 1, 2), (4, 4, 2), (2, 4, 4), (3, 1, 3)):
        yield 'Xor2 a%d b%d r%d' % (aw, bw, rw), gate2(Xor2, aw, bw, rw, lambda a, b: a ^ b)
    def un(cls, aw, rw, fn, *extra):
        def build(s):
            a, r = W(s, 'a', aw), W(s, 'r', rw)
            cls(s, 'dut', a, *extra, r)
            return {'a': a}, {'r': r}
        return {'build': build, 'spec': lambda V: {'r': fn(V['a'])}}

    for w in ws:
        yield 'Not w%d' % w, un(Not, w, w, lambda a: ~a)
        for rw in sorted(set([w, w + 2, max(1, w - 1)])):
            yield 'Buf a%d r%d' % (w, rw), un(Buf, w, rw, lambda a, rw=rw: zx(a, rw))
        if w > 1:
            yield 'AndBits w%d' % w, un(AndBits, w, 1, lambda a, w=w: b1(a == z3.BitVecVal(-1, w)))
            yield 'OrBits w%d' % w, un(OrBits, w, 1, lambda a: b1(a != 0))
        for bit in range(w):
            yield 'Bit a%d bit%d' % (w, bit), un(Bit, w, 1, lambda a, bit=bit: z3.Extract(bit, bit, a), bit)
        if w <= (5 if quick else 8):
            for hi in range(w):
                for lo in range(hi + 1):
                    for rw in sorted(set([hi - lo + 1, hi - lo + 2, max(1, hi - lo)])):
                        yield 'Range a%d %d:%d r%d' % (w, hi, lo, rw), un(
                            Range, w, rw, lambda a, hi=hi, lo=lo, rw=rw: zx(z3.Extract(hi, lo, a), rw), hi, lo)
        for rw in sorted(set([w, 1, w + 1])):
            def mk_rep(rw):
                def build(s):
                    i, r = W(s, 'i', 1), W(s, 'r', rw)
                    Repeat(s, 'dut', i, r)
                    return {'i': i}, {'r': r}
                return {'build': build, 'spec': lambda V: {'r': z3.If(V['i'] == 1, z3.BitVecVal(-1, rw), z3.BitVecVal(0, rw))}}
            yield 'Repeat r%d' % rw, mk_rep(rw)

    # ---- bit split / concatenation ---------------------------------------------------------------
    def bits_cfg(cls, w, msbf):
        def build(s):
            a = W(s, 'a', w)
            bits = [W(s, 'b%d' % k, 1) for k in range(w)]
            cls(s, 'dut', a, bits)
            return {'a': a}, {'b%d' % k: bits[k] for k in range(w)}

        def spec(V):
            return {'b%d' % k: z3.Extract((w - 1 - k) if msbf else k, (w - 1 - k) if msbf else k, V['a']) for k in range(w)}
        return {'build': build, 'spec': spec}
    for w in ws:
        yield 'BitsLSBF w%d' % w, bits_cfg(BitsLSBF, w, False)
        yield 'BitsMSBF w%d' % w, bits_cfg(BitsMSBF, w, True)

    def concat_cfg(cls, widths, rw, msbf):
        def build(s):
            ins = {'i%d' % k: W(s, 'i%d' % k, w) for k, w in enumerate(widths)}
            r = W(s, 'r', rw)
            cls(s, 'dut', list(ins.values()), r)
            return ins, {'r': r}

        def spec(V):
            parts = [V['i%d' % k] for k in range(len(widths))]
            if not msbf:
                parts = list(reversed(parts))     # first input is least significant
            t = z3.Concat(*parts) if len(parts) > 1 else parts[0]
            return {'r': zx(t, rw)}
        return {'build': build, 'spec': spec}
    wsets = [(1,), (3,), (1, 1), (2, 3), (4, 1), (1, 2, 3), (3, 1, 4), (1, 1, 1, 1), (2, 1, 3, 2)]
    if not quick:
        wsets += [(8, 8), (5, 7, 3), (1, 2, 3, 4, 5), (4, 4, 4, 4), (16, 16)]
    for ws_ in wsets:
        for extra in (0, 2):
            rw = sum(ws_) + extra
            nm = '_'.join(map(str, ws_))
            yield 'ConcatenateLSBF %s r%d' % (nm, rw), concat_cfg(ConcatenateLSBF, ws_, rw, False)
            yield 'ConcatenateMSBF %s r%d' % (nm, rw), concat_cfg(ConcatenateMSBF, ws_, rw, True)

    # ---- BufEnable, Mux2, Mux, Demux, Decoder -----------------------------------------------------
    def bufen(w):
        def build(s):
            a, en, r = W(s, 'a', w), W(s, 'en', 1), W(s, 'r', w)
            BufEnable(s, 'dut', a, en, r)
            return {'a': a, 'en': en}, {'r': r}
        return {'build': build, 'spec': lambda V: {'r': z3.If(V['en'] == 1, V['a'], z3.BitVecVal(0, w))}}

    def mux2(selw, w):
        def build(s):
            sel, a, b, r = W(s, 'sel', selw), W(s, 'a', w), W(s, 'b', w), W(s, 'r', w)
            Mux2(s, 'dut', sel, a, b, r)
            return {'sel': sel, 'a': a, 'b': b}, {'r': r}
        return {'build': build, 'spec': lambda V: {'r': z3.If(z3.Extract(0, 0, V['sel']) == 1, V['b'], V['a'])}}

    def mux(k, w):
        n = 1 << k

        def build(s):
            sel = W(s, 'sel', k)
            ins = {'i%d' % j: W(s, 'i%d' % j, w) for j in range(n)}
            r = W(s, 'r', w)
            Mux(s, 'dut', sel, list(ins.values()), r)
            return dict(ins, sel=sel), {'r': r}

        def spec(V):
            t = V['i0']
            for j in range(1, n):
                t = z3.If(V['sel'] == j, V['i%d' % j], t)
            return {'r': t}
        return {'build': build, 'spec': spec}

    def mux_mixed(k, widths, rw):
        """inputs of different widths and a result of yet another width: r = ins[sel] reduced modulo 2**width(r)"""
        n = 1 << k

        def build(s):
            sel = W(s, 'sel', k)
            ins = {'i%d' % j: W(s, 'i%d' % j, widths[j % len(widths)]) for j in range(n)}
            r = W(s, 'r', rw)
            Mux(s, 'dut', sel, list(ins.values()), r)
            return dict(ins, sel=sel), {'r': r}

        def fit(v):
            return z3.Extract(rw - 1, 0, v) if v.size() >= rw else z3.ZeroExt(rw - v.size(), v)

        def spec(V):
            t = fit(V['i0'])
            for j in range(1, n):
                t = z3.If(V['sel'] == j, fit(V['i%d' % j]), t)
            return {'r': t}
        return {'build': build, 'spec': spec}

    def demux(k, w):
        n = 1 << k

        def build(s):
            a, sel = W(s, 'a', w), W(s, 'sel', k)
            rs = [W(s, 'r%d' % j, w) for j in range(n)]
            Demux(s, 'dut', a, sel, rs)
            return {'a': a, 'sel': sel}, {'r%d' % j: rs[j] for j in range(n)}
        return {'build': build,
                'spec': lambda V: {'r%d' % j: z3.If(V['sel'] == j, V['a'], z3.BitVecVal(0, w)) for j in range(n)}}

    def decoder(k):
        n = 1 << k

        def build(s):
            a = W(s, 'a', k)
            bs = [W(s, 'b%d' % j, 1) for j in range(n)]
            Decoder(s, 'dut', a, bs)
            return {'a': a}, {'b%d' % j: bs[j] for j in range(n)}
        return {'build': build, 'spec': lambda V: {'b%d' % j: b1(V['a'] == j) for j in range(n)}}

    for w in ws:
        yield 'BufEnable w%d' % w, bufen(w)
        for selw in (1, 2, 3):
            yield 'Mux2 sel%d w%d' % (selw, w), mux2(selw, w)
    for k in (1, 2, 3) if quick else (1, 2, 3, 4):
        for w in ([1, 4] if quick else [1, 3, 4, 8]):
            yield 'Mux k%d w%d' % (k, w), mux(k, w)
            yield 'Demux k%d w%d' % (k, w), demux(k, w)
        yield 'Decoder k%d' % k, decoder(k)
    for k, widths, rw in ([(2, [2, 4, 4, 4], 4), (2, [4, 4, 6, 4], 6), (3, [1, 3, 2, 4], 4), (1, [2, 4], 4), (2, [4, 2], 3)] if quick else
                          [(2, [2, 4, 4, 4], 4), (2, [4, 4, 6, 4], 6), (3, [1, 3, 2, 4], 4), (1, [2, 4], 4), (2, [4, 2], 3), (3, [2, 8], 8), (4, [3, 5, 7], 8), (2, [8, 1, 8, 1], 4)]):
        yield 'Mux k%d input widths %s r%d' % (k, '/'.join(map(str, widths)), rw), mux_mixed(k, widths, rw)

    # ---- one-hot selectors ---------------------------------------------------------------------------
    def at_most_one(V, n):
        sels = [V['s%d' % k] for k in range(n)]
        tot = sum((zx(x, 8) for x in sels[1:]), zx(sels[0], 8))
        return z3.ULE(tot, 1)

    def onehot_mux(cls, n, w):
        def build(s):
            sels = [W(s, 's%d' % k, 1) for k in range(n)]
            ins = [W(s, 'i%d' % k, w) for k in range(n)]
            r = W(s, 'r', w)
            cls(s, 'dut', sels, ins, r)
            d = {'s%d' % k: sels[k] for k in range(n)}
            d.update({'i%d' % k: ins[k] for k in range(n)})
            return d, {'r': r}

        def spec(V):
            t = z3.BitVecVal(0, w)
            for k in range(n):
                t = z3.If(V['s%d' % k] == 1, V['i%d' % k], t)
            return {'r': t}
        return {'build': build, 'spec': spec, 'assume': lambda V: at_most_one(V, n)}

    def onehot_demux(n, w):
        def build(s):
            sels = [W(s, 's%d' % k, 1) for k in range(n)]
            a = W(s, 'a', w)
            outs = [W(s, 'o%d' % k, w) for k in range(n)]
            OneHotDemux(s, 'dut', sels, a, outs)
            d = {'s%d' % k: sels[k] for k in range(n)}
            d['a'] = a
            return d, {'o%d' % k: outs[k] for k in range(n)}
        return {'build': build,
                'spec': lambda V: {'o%d' % k: z3.If(V['s%d' % k] == 1, V['a'], z3.BitVecVal(0, w)) for k in range(n)}}

    def seldef(n, w):
        def build(s):
            sels = [W(s, 's%d' % k, 1) for k in range(n)]
            ins = [W(s, 'i%d' % k, w) for k in range(n)]
            dflt, r = W(s, 'dflt', w), W(s, 'r', w)
            SelectDefault(s, 'dut', sels, ins, dflt, r)
            d = {'s%d' % k: sels[k] for k in range(n)}
            d.update({'i%d' % k: ins[k] for k in range(n)})
            d['dflt'] = dflt
            return d, {'r': r}

        def spec(V):
            t = V['dflt']
            for k in range(n):
                t = z3.If(V['s%d' % k] == 1, V['i%d' % k], t)
            return {'r': t}
        return {'build': build, 'spec': spec, 'assume': lambda V: at_most_one(V, n)}

    for n in (1, 2, 3, 4) if quick else (1, 2, 3, 4, 5, 6):
        for w in ([1, 4] if quick else [1, 3, 8]):
            if n >= 1:
                yield 'Select n%d w%d' % (n, w), onehot_mux(Select, n, w)
                yield 'OneHotMux n%d w%d' % (n, w), onehot_mux(OneHotMux, n, w)
            yield 'OneHotDemux n%d w%d' % (n, w), onehot_demux(n, w)
            yield 'SelectDefault n%d w%d' % (n, w), seldef(n, w)

    # ---- priority encoder --------------------------------------------------------------------------------
    def prio(n, inc):
        def build(s):
            a = [W(s, 'a%d' % k, 1) for k in range(n)]
            r = [W(s, 'r%d' % k, 1) for k in range(n)]
            PriorityEncoder(s, 'dut', a, r, inc_priority=inc)
            return {'a%d' % k: a[k] for k in range(n)}, {'r%d' % k: r[k] for k in range(n)}

        def spec(V):
            # inc_priority: priority increases with the index (the repo's own test: 0b1111111 -> bit 6)
            o = {}
            for k in range(n):
                higher = range(k + 1, n) if inc else range(0, k)
                c = V['a%d' % k] == 1
                for j in higher:
                    c = z3.And(c, V['a%d' % j] == 0)
                o['r%d' % k] = b1(c)
            return o
        return {'build': build, 'spec': spec}
    for n in range(1, 7 if quick else 10):
        yield 'PriorityEncoder n%d inc' % n, prio(n, True)
        yield 'PriorityEncoder n%d dec' % n, prio(n, False)

    # ---- minterms -----------------------------------------------------------------------------------------
    def minterm(n, value):
        def build(s):
            bits = [W(s, 'b%d' % k, 1) for k in range(n)]
            r = W(s, 'r', 1)
            Minterm(s, 'dut', bits, value, r)
            return {'b%d' % k: bits[k] for k in range(n)}, {'r': r}

        def spec(V):
            c = z3.BoolVal(True)
            for k in range(n):
                c = z3.And(c, V['b%d' % k] == ((value >> k) & 1))
            return {'r': b1(c)}
        return {'build': build, 'spec': spec}
    for n in (1, 2, 3) if quick else (1, 2, 3, 4):
        for value in range(1 << n):
            yield 'Minterm n%d v%d' % (n, value), minterm(n, value)

    def som(w, terms):
        def build(s):
            a, r = W(s, 'a', w), W(s, 'r', 1)
            SumOfMinterms(s, 'dut', a, list(terms), r)
            return {'a': a}, {'r': r}
        return {'build': build, 'spec': lambda V: {'r': b1(z3.Or(*[V['a'] == t for t in terms]))}}
    import random
    rnd = random.Random(7)
    for w in (2, 3, 4):
        for _ in range(3 if quick else 10):
            k = rnd.randint(1, min(6, (1 << w)))
            terms = tuple(sorted(rnd.sample(range(1 << w), k)))
            yield 'SumOfMinterms w%d %s' % (w, '_'.join(map(str, terms))), som(w, terms)
    # every non-empty subset for 2 and 3 input bits (sparse and dense lists, with and without the all-ones combination); for 4 bits the
    # lists with one or two combinations missing and seeded dense lists
    done = set()
    for w in (2, 3):
        for mask in range(1, 1 << (1 << w)):
            terms = tuple(t for t in range(1 << w) if (mask >> t) & 1)
            if quick and w == 3 and len(terms) not in (1, 5, 6, 7, 8) and mask % 7:
                continue
            done.add((w, terms))
            yield 'SumOfMinterms w%d list %s' % (w, '_'.join(map(str, terms))), som(w, terms)
    full = tuple(range(16))
    for miss in [()] + [(m,) for m in range(16)] + [(15, m) for m in range(0, 15, 3 if quick else 1)] + [(0, 7), (5, 10)]:
        terms = tuple(t for t in full if t not in miss)
        yield 'SumOfMinterms w4 all but %s' % ('_'.join(map(str, miss)) or 'none'), som(4, terms)
    for _ in range(6 if quick else 60):
        k = rnd.randint(9, 15)
        terms = tuple(sorted(rnd.sample(range(16), k)))
        yield 'SumOfMinterms w4 dense %s' % '_'.join(map(str, terms)), som(4, terms)

    # ---- swap, equality, comparators ------------------------------------------------------------------------
    def swap(w):
        def build(s):
            a, b, sw, ra, rb = W(s, 'a', w), W(s, 'b', w), W(s, 'swap', 1), W(s, 'ra', w), W(s, 'rb', w)
            Swap(s, 'dut', a, b, sw, ra, rb)
            return {'a': a, 'b': b, 'swap': sw}, {'ra': ra, 'rb': rb}
        return {'build': build, 'spec': lambda V: {'ra': z3.If(V['swap'] == 1, V['b'], V['a']),
                                                   'rb': z3.If(V['swap'] == 1, V['a'], V['b'])}}

    def equal(w):
        def build(s):
            a, b, r = W(s, 'a', w), W(s, 'b', w), W(s, 'r', 1)
            Equal(s, 'dut', a, b, r)
            return {'a': a, 'b': b}, {'r': r}
        return {'build': build, 'spec': lambda V: {'r': b1(V['a'] == V['b'])}}

    def eqk(cls, w, v, neg):
        def build(s):
            a, r = W(s, 'a', w), W(s, 'r', 1)
            cls(s, 'dut', a, v, r)
            return {'a': a}, {'r': r}

        def spec(V):
            n = max(w, v.bit_length()) + 1
            c = zx(V['a'], n) == z3.BitVecVal(v, n)
            return {'r': b1(z3.Not(c) if neg else c)}
        return {'build': build, 'spec': spec}

    def anyeq(n, w):
        def build(s):
            ins = {'i%d' % k: W(s, 'i%d' % k, w) for k in range(n)}
            r = W(s, 'r', 1)
            AnyEqual(s, 'dut', list(ins.values()), r)
            return ins, {'r': r}
        return {'build': build, 'spec': lambda V: {'r': b1(z3.Or(*[V['i%d' % i] == V['i%d' % j]
                                                                     for i in range(n) for j in range(i + 1, n)]))}}

    def cmp_cfg(w):
        def build(s):
            a, b = W(s, 'a', w), W(s, 'b', w)
            o = {k: W(s, k, 1) for k in ('gt', 'eq', 'lt')}
            Comparator(s, 'dut', a, b, o['gt'], o['eq'], o['lt'])
            return {'a': a, 'b': b}, o
        return {'build': build, 'spec': lambda V: {'gt': b1(z3.UGT(V['a'], V['b'])), 'eq': b1(V['a'] == V['b']),
                                                   'lt': b1(z3.ULT(V['a'], V['b']))}}

    def cmpsu_cfg(w):
        def build(s):
            a, b = W(s, 'a', w), W(s, 'b', w)
            o = {k: W(s, k, 1) for k in ('gtu', 'eq', 'ltu', 'gt', 'lt')}
            ComparatorSignedUnsigned(s, 'dut', a, b, o['gtu'], o['eq'], o['ltu'], o['gt'], o['lt'])
            return {'a': a, 'b': b}, o
        return {'build': build, 'spec': lambda V: {'gtu': b1(z3.UGT(V['a'], V['b'])), 'eq': b1(V['a'] == V['b']),
                                                   'ltu': b1(z3.ULT(V['a'], V['b'])), 'gt': b1(V['a'] > V['b']),
                                                   'lt': b1(V['a'] < V['b'])}}

    def minmax(cls, w, fn):
        def build(s):
            a, b, r = W(s, 'a', w), W(s, 'b', w), W(s, 'r', w)
            cls(s, 'dut', a, b, r)
            return {'a': a, 'b': b}, {'r': r}
        return {'build': build, 'spec': lambda V: {'r': fn(V['a'], V['b'])}}

    for w in ws + ([] if quick else [16, 32]):
        yield 'Swap w%d' % w, swap(w)
        yield 'Equal w%d' % w, equal(w)
        yield 'Comparator w%d' % w, cmp_cfg(w)
        yield 'ComparatorSignedUnsigned w%d' % w, cmpsu_cfg(w)
        yield 'Max2 w%d' % w, minmax(Max2, w, lambda a, b: z3.If(z3.UGE(a, b), a, b))
        yield 'Min2 w%d' % w, minmax(Min2, w, lambda a, b: z3.If(z3.ULE(a, b), a, b))
        yield 'SignedMax2 w%d' % w, minmax(SignedMax2, w, lambda a, b: z3.If(a >= b, a, b))
        yield 'SignedMin2 w%d' % w, minmax(SignedMin2, w, lambda a, b: z3.If(a <= b, a, b))
        if w <= 8:
            for n in ((2, 3, 4, 5, 6) if w <= 3 else (2, 3, 4)) if quick else (2, 3, 4, 5, 6, 7):
                yield 'AnyEqual n%d w%d' % (n, w), anyeq(n, w)
        if w <= 4:
            consts = list(range(1 << w))
        else:
            consts = [0, 1, (1 << w) - 1, (1 << w) - 2, 1 << (w - 1)]
        for v in consts:
            yield 'EqualConstant w%d v%d' % (w, v), eqk(EqualConstant, w, v, False)
            yield 'NotEqualConstant w%d v%d' % (w, v), eqk(NotEqualConstant, w, v, True)
        if not quick:
            for v in (1 << w, (1 << w) + 1):
                yield 'EqualConstant w%d v%d out-of-range' % (w, v), eqk(EqualConstant, w, v, False)

    # ---- wide data paths: beyond the 53-bit mantissa of a double and beyond one 64-bit machine word ("any width it accepts") ----
    for w in ([64] if quick else [33, 54, 64, 65, 100]):
        yield 'And n3 w%d' % w, nary(And, 3, w, lambda a, b: a & b)
        yield 'Or n3 w%d' % w, nary(Or, 3, w, lambda a, b: a | b)
        yield 'Xor n3 w%d' % w, nary(Xor, 3, w, lambda a, b: a ^ b)
        c = nary(Nor, 2, w, lambda a, b: a | b)
        yield 'Nor n2 w%d' % w, dict(c, spec=(lambda sp: lambda V: {'r': ~sp(V)['r']})(c['spec']))
        yield 'And2 a%d b%d r%d' % (w, w, w), gate2(And2, w, w, w, lambda a, b: a & b)
        yield 'Or2 a%d b%d r%d' % (w, w, w), gate2(Or2, w, w, w, lambda a, b: a | b)
        yield 'Xor2 w%d' % w, gate2(Xor2, w, w, w, lambda a, b: a ^ b)
        yield 'Nand2 w%d' % w, gate2(Nand2, w, w, w, lambda a, b: ~(a & b))
        yield 'Nor2 w%d' % w, gate2(Nor2, w, w, w, lambda a, b: ~(a | b))
        yield 'Not w%d' % w, un(Not, w, w, lambda a: ~a)
        yield 'Buf a%d r%d' % (w, w + 2), un(Buf, w, w + 2, lambda a, w=w: zx(a, w + 2))
        yield 'AndBits w%d' % w, un(AndBits, w, 1, lambda a, w=w: b1(a == z3.BitVecVal(-1, w)))
        yield 'OrBits w%d' % w, un(OrBits, w, 1, lambda a: b1(a != 0))
        for bit in (0, w - 1, w // 2):
            yield 'Bit a%d bit%d' % (w, bit), un(Bit, w, 1, lambda a, bit=bit: z3.Extract(bit, bit, a), bit)
        for hi, lo in ((w - 1, w - 8), (w - 1, 0), (w - 2, 1)):
            rw = hi - lo + 1
            yield 'Range a%d %d:%d r%d' % (w, hi, lo, rw), un(Range, w, rw, lambda a, hi=hi, lo=lo, rw=rw: zx(z3.Extract(hi, lo, a), rw), hi, lo)

        def mk_rep_w(rw):
            def build(s):
                i, r = W(s, 'i', 1), W(s, 'r', rw)
                Repeat(s, 'dut', i, r)
                return {'i': i}, {'r': r}
            return {'build': build, 'spec': lambda V: {'r': z3.If(V['i'] == 1, z3.BitVecVal(-1, rw), z3.BitVecVal(0, rw))}}
        yield 'Repeat r%d' % w, mk_rep_w(w)
        yield 'BitsLSBF w%d' % w, bits_cfg(BitsLSBF, w, False)
        yield 'BitsMSBF w%d' % w, bits_cfg(BitsMSBF, w, True)
        ws_ = (w // 2, w - w // 2, 3)
        yield 'ConcatenateLSBF %s r%d' % ('_'.join(map(str, ws_)), w + 3), concat_cfg(ConcatenateLSBF, ws_, w + 3, False)
        yield 'ConcatenateMSBF %s r%d' % ('_'.join(map(str, ws_)), w + 3), concat_cfg(ConcatenateMSBF, ws_, w + 3, True)
        yield 'BufEnable w%d' % w, bufen(w)
        yield 'Mux2 sel1 w%d' % w, mux2(1, w)
        yield 'Mux k2 w%d' % w, mux(2, w)
        yield 'Demux k1 w%d' % w, demux(1, w)
        yield 'Select n2 w%d' % w, onehot_mux(Select, 2, w)
        yield 'OneHotMux n3 w%d' % w, onehot_mux(OneHotMux, 3, w)
        yield 'OneHotDemux n2 w%d' % w, onehot_demux(2, w)
        yield 'SelectDefault n2 w%d' % w, seldef(2, w)
        yield 'Swap w%d' % w, swap(w)
        yield 'Equal w%d' % w, equal(w)
        yield 'Comparator w%d' % w, cmp_cfg(w)
        yield 'ComparatorSignedUnsigned w%d' % w, cmpsu_cfg(w)
        yield 'Max2 w%d' % w, minmax(Max2, w, lambda a, b: z3.If(z3.UGE(a, b), a, b))
        yield 'Min2 w%d' % w, minmax(Min2, w, lambda a, b: z3.If(z3.ULE(a, b), a, b))
        yield 'SignedMax2 w%d' % w, minmax(SignedMax2, w, lambda a, b: z3.If(a >= b, a, b))
        yield 'SignedMin2 w%d' % w, minmax(SignedMin2, w, lambda a, b: z3.If(a <= b, a, b))
        yield 'AnyEqual n2 w%d' % w, anyeq(2, w)
        for v in (0, (1 << w) - 1, 1 << (w - 1), (1 << 53) + 1):
            yield 'EqualConstant w%d v%d' % (w, v), eqk(EqualConstant, w, v, False)
            yield 'NotEqualConstant w%d v%d' % (w, v), eqk(NotEqualConstant, w, v, True)


def replay(rec):
    from .c07 import replay as _r
    import checks.c07 as c7
    saved = c7.cfgs
    c7.cfgs = cfgs
    try:
        return _r(rec)
    finally:
        c7.cfgs = saved


def main(argv=None):
    args = common.parse_args(PROP, argv)
    tasks = [(name, comb_task, cfg) for name, cfg in cfgs(args.tier)]
    return common.run_check(
        PROP, 'model_checking', tasks, args, design_ref='DESIGN.md section 3 (C08)',
        technique='symbolic execution of the real propagate()/simulator on z3 bit-vector symbols; one QF_BV query per output against a truth-table reference',
        assumptions=['at most one select high for Select/OneHotMux/SelectDefault (priority among several is not documented)',
                     'PriorityEncoder(inc_priority=True): priority increases with the index (as the repository test expects)',
                     'And2/Or2/Buf/Concatenate with mixed widths: operands zero-extended, result truncated'],
        bounds={'widths': '1..8 (quick) / 1..12,16,32 (thorough)', 'arity': 'n-ary gates 1..6 / 1..8; mux select width 1..3 / 1..4',
                'outside': 'larger widths/arities; Equal/Not/Nand2/Nor2 with mixed widths (upper result bits not documented; C01 compares them with the emitted Verilog)'},
        trusted_base=['z3', 'symx operator semantics (validated per run against concrete simulation)', 'reference functions in checks/c08.py'],
        replay_fn=replay)


if __name__ == '__main__':
    sys.exit(main())
