"""
Shared machinery for C01/C02/C03/C19: generate Verilog with the real generator, elaborate it
with the E2 front end, and prove it equivalent to the symbolic execution of the real simulator.
"""
import io
import sys
import traceback

import z3

from . import common
from .comb import quiet
from . import designs as D
from symx import core, symsim
from symx.core import ctx, Unsupported, SymbolicPathError

import py4hw
from py4hw.logic.storage import Reg
from vlog import elab
from vlog.parser import VlogUnsupported, VlogSyntaxError


def wrap_in_box(build, kind):
    """returns f(sys) -> (box, ins, outs, extra) where the design lives in a Box with ports"""
    def f(s):
        box = D.Box(s, 'box', {}, {}, lambda b: None)
        if kind == 'comb':
            ins, outs = build(box)
            extra = {}
        else:
            dd = build(box)
            ins, outs = dd['ins'], dd['outs']
            extra = dd
        for n, w in ins.items():
            box.addIn(n, w)
        for n, w in outs.items():
            box.addOut(n, w)
        return box, ins, outs, extra
    return f


def generate(box, **kw):
    """real generator; returns (text, None) or (None, exception)"""
    out = io.StringIO()
    old = sys.stdout
    sys.stdout = out
    try:
        g = py4hw.VerilogGenerator(box)
        return g.getVerilogForHierarchy(**kw), None
    except Exception as e:
        return None, e
    finally:
        sys.stdout = old


def vname(n):
    """port name as the generator emits it"""
    return py4hw.rtl_generation.getValidVerilogName(n)


def neq_term(v, term):
    w = term.size()
    lo, hi = core._bounds(v)
    c = core.to_term(v, w + 1) != z3.ZeroExt(1, term)
    if lo < 0 or hi >= (1 << w):
        c = z3.Or(c, core.as_z3_bool(v < 0), core.as_z3_bool(v >= (1 << w)))
    return c


def reg_state_map(box, design):
    """py4hw Reg leaves <-> Verilog state variables.  Returns (pairs, complete) where pairs is a list of
    (leaf, verilog state name); complete is False when some state on either side is not a plain Reg."""
    vstate = dict(elab.Sim(design, {}, None).state_nets()) if not design.fatal else {}
    pairs = []
    used = set()
    complete = True
    for leaf in symsim.sequential_leaves(box):
        if not isinstance(leaf, Reg):
            complete = False
            continue
        parts = []
        o = leaf
        while o is not box:
            parts.append('i_' + o.name)
            o = o.parent
        name = '.'.join(reversed(parts)) + '.rq'
        if name not in vstate:
            complete = False
            continue
        pairs.append((leaf, name))
        used.add(name)
    if set(vstate) - used:
        complete = False
    return pairs, complete


class Equiv:
    """one design: py4hw (symbolic) vs emitted Verilog (E2)"""

    def __init__(self, p, build, rec, clock='clk', assume=None):
        self.p, self.build, self.rec, self.clock, self.assume = p, build, rec, clock, assume

    def setup_py(self, wrap=True):
        with quiet():
            s = py4hw.HWSystem()
            box, ins, outs, extra = self.build(s)
        if wrap:
            symsim.instrument(s, self.rec)
        return s, box, ins, outs, extra

    def vins(self, V):
        ins = {vname(n): v for n, v in V.items()}
        ins[self.clock] = z3.BitVecVal(0, 1)
        return ins

    def concrete(self, steps, init_regs=None, text=None):
        """real code, concrete: returns (py outputs per point, verilog outputs per point)"""
        s, box, ins, outs, extra = self.setup_py(wrap=False)
        d = elab.load(text or self.text)
        widths = {n: w.getWidth() for n, w in ins.items()}
        pts_p, pts_v = [], []
        with quiet():
            for n, w in ins.items():
                w.put(steps[0].get(n, 0))
            sim = s.getSimulator()
            vstate = None
            if init_regs is not None:
                pairs, _ = reg_state_map(box, d)
                vstate = dict(elab.Sim(d, {}, None).initial_state())
                for leaf, vn in pairs:
                    v = init_regs.get(vn, 0)
                    leaf.value = v
                    leaf.q.value = v
                    vstate[vn] = z3.BitVecVal(v, leaf.q.getWidth())
                sim.propagateAll()
            vi = self.vins({n: z3.BitVecVal(steps[0].get(n, 0), widths[n]) for n in ins})
            pts_p.append({n: w.get() for n, w in outs.items()})
            pts_v.append({n: z3.simplify(t).as_long() for n, t in elab.Sim(d, vi, vstate).outputs().items()})
            for st in steps:
                for n, w in ins.items():
                    w.put(st.get(n, 0))
                sim.clk(1)
                vi = self.vins({n: z3.BitVecVal(st.get(n, 0), widths[n]) for n in ins})
                vs = elab.Sim(d, vi, vstate)
                vstate = {k: z3.simplify(v) for k, v in vs.step(self.clock).items()}
                pp = {n: w.get() for n, w in outs.items()}
                pv = {n: z3.simplify(t).as_long() for n, t in elab.Sim(d, vi, vstate).outputs().items()}
                if init_regs is not None:
                    for leaf, vn in pairs:            # register correspondence after the step
                        pp['register ' + vn] = leaf.q.value
                        pv['register ' + vn] = vstate[vn].as_long()
                pts_p.append(pp)
                pts_v.append(pv)
        return pts_p, pts_v

    def replay_seq(self, K):
        def r(values):
            steps = [{n[len('c%d:' % k):]: v for n, v in values.items() if n.startswith('c%d:' % k)} for k in range(K + 1)]
            pp, pv = self.concrete(steps if steps else [{}])
            for i, (a, b) in enumerate(zip(pp, pv)):
                for n in a:
                    if a[n] != b.get(vname(n)):
                        return {'point': 'power-up' if i == 0 else 'after edge %d' % i, 'output': n, 'py4hw': a[n], 'verilog': b.get(vname(n)),
                                'inputs_per_cycle': steps}
            return None
        return r

    def run(self, K, induction=True, text=None):
        """returns False when the generator refused / text unusable (recorded), True otherwise"""
        p = self.p
        try:
            s, box, ins, outs, extra = self.setup_py(wrap=False)
        except (AssertionError, Exception) as e:
            if isinstance(e, (Unsupported, common.HarnessError)):
                raise
            p.res['refused'] += 1
            p.note('%s: constructor refused: %r' % (p.config, e))
            return False
        if text is None:
            # the text is requested from the plain circuit: the transpiler reads the source of the leaves' own methods
            text, exc = generate(box)
            if text is None:
                p.res['refused'] += 1
                p.note('%s: generator refused: %r' % (p.config, exc))
                return False
        symsim.instrument(s, self.rec)
        self.text = text
        p.res['programs'] += 1
        try:
            d = elab.load(text)
        except VlogSyntaxError as e:
            p.structural('emitted text parses', False, detail={'error': str(e), 'text': text[:400]})
            return False
        except VlogUnsupported as e:
            p.inconclusive('elaboration', 'front end: %s' % e)
            return False
        self.design = d
        if d.fatal:
            p.inconclusive('elaboration', 'front end: %s' % d.fatal)
            return False
        # --- power-up
        Iw = symsim.poke_fresh(list(ins.values()), 'c0_')
        V0 = {n: Iw[w] for n, w in ins.items()}
        allv = {'c0:' + n: v for n, v in V0.items()}
        if self.assume:
            p.assume(self.assume(V0))
        with quiet():
            sim = s.getSimulator()
        try:
            vs = elab.Sim(d, self.vins(V0), None)
            vo = vs.outputs()
        except VlogUnsupported as e:
            p.inconclusive('power-up', 'front end: %s' % e)
            return False
        for g in vs.div_guards:
            p.assume(g, also_paths=False)
        missing = [n for n in outs if vname(n) not in vo]
        p.structural('every output port of the design exists in the emitted top module', not missing, detail={'missing': missing, 'have': sorted(vo)})
        if missing:
            return False
        conds = [neq_term(w.get(), vo[vname(n)]) for n, w in outs.items()]
        p.prove('power-up: all %d outputs equal' % len(outs), z3.Or(*conds), inputs=dict(allv), replay=self.replay_seq(0))
        p.res['disagreements_checked'] += 1
        # --- BMC from power-up
        vstate = None
        Vk = V0
        for k in range(K):
            if k > 0:
                Iw = symsim.poke_fresh(list(ins.values()), 'c%d_' % k)
                Vk = {n: Iw[w] for n, w in ins.items()}
                allv.update(('c%d:%s' % (k, n), v) for n, v in Vk.items())
                if self.assume:
                    p.assume(self.assume(Vk))
            with quiet():
                sim.clk(1)
            try:
                vs = elab.Sim(d, self.vins(Vk), vstate)
                vstate = vs.step(self.clock)
                for g in vs.div_guards:
                    p.assume(g, also_paths=False)
                vs2 = elab.Sim(d, self.vins(Vk), vstate)
                vo = vs2.outputs()
                for g in vs2.div_guards:
                    p.assume(g, also_paths=False)
            except VlogUnsupported as e:
                p.inconclusive('bmc%d' % (k + 1), 'front end: %s' % e)
                return True
            conds = [neq_term(w.get(), vo[vname(n)]) for n, w in outs.items()]
            p.prove('after edge %d: all %d outputs equal' % (k + 1, len(outs)), z3.Or(*conds), inputs=dict(allv), replay=self.replay_seq(k + 1))
            p.res['disagreements_checked'] += 1
            if not d.seq_blocks and not any(n.proc for n in d.nets.values()) and not symsim.sequential_leaves(box):
                break                      # purely combinational: one edge is enough
        # --- induction over registers
        if induction and (d.seq_blocks or symsim.sequential_leaves(box)):
            self.induction()
        return True

    def induction(self):
        p = self.p
        p.assumptions = []
        ctx.set_assumptions([])
        s, box, ins, outs, extra = self.setup_py()
        d = self.design
        pairs, complete = reg_state_map(box, d)
        if not complete:
            p.note('%s: induction skipped (state is not only plain registers); BMC result stands' % p.config)
            return
        with quiet():
            sim = s.getSimulator()
        vstate = dict(elab.Sim(d, {}, None).initial_state())
        allv = {}
        for leaf, vn in pairs:
            x, v = core.fresh('s_' + vn, leaf.q.getWidth())
            leaf.value = x
            leaf.q.value = x
            vstate[vn] = v
            allv['s:' + vn] = v
        Iw = symsim.poke_fresh(list(ins.values()), 'i_')
        V = {n: Iw[w] for n, w in ins.items()}
        allv.update(('c0:' + n, v) for n, v in V.items())
        if self.assume:
            p.assume(self.assume(V))
        with quiet():
            sim.propagateAll()
        vs = elab.Sim(d, self.vins(V), vstate)
        vo = vs.outputs()
        for g in vs.div_guards:
            p.assume(g, also_paths=False)

        def replay(values):
            regs = {k[2:]: v for k, v in values.items() if k.startswith('s:')}
            step = {k[3:]: v for k, v in values.items() if k.startswith('c0:')}
            pp, pv = self.concrete([step], init_regs=regs)
            for i, (a, b) in enumerate(zip(pp, pv)):
                for n in a:
                    if a[n] != b.get(vname(n)):
                        return {'point': 'from register state %s, %s' % (regs, 'before the edge' if i == 0 else 'after the edge'),
                                'output': n, 'py4hw': a[n], 'verilog': b.get(vname(n)), 'inputs': step}
            return None
        conds = [neq_term(w.get(), vo[vname(n)]) for n, w in outs.items()]
        p.prove('induction: outputs equal in any corresponding register state', z3.Or(*conds), inputs=dict(allv), replay=replay)
        with quiet():
            sim.clk(1)
        nxt = vs.step(self.clock)
        vs2 = elab.Sim(d, self.vins(V), nxt)
        vo2 = vs2.outputs()
        conds = [neq_term(leaf.q.value, nxt[vn]) for leaf, vn in pairs]
        conds += [neq_term(w.get(), vo2[vname(n)]) for n, w in outs.items()]
        p.prove('induction: one step from any corresponding register state yields corresponding states and equal outputs',
                z3.Or(*conds), inputs=dict(allv), replay=replay)
        p.res['disagreements_checked'] += 2
