"""
C15 -- waveform capture records exactly what the wires carried, once per cycle, and the
WaveDrom rendering decodes back to the same samples.

(a) capture: symbolic input vectors per cycle; after the real clk() calls the recorded lists are
    proved equal (solver) to the terms the wires carried going into each edge, obtained from a
    twin design without recorder that is stepped one cycle at a time.
(b) rendering: get_wavedrom() is executed on the symbolic recording on EVERY feasible path
    (value comparisons and label formatting fork); an independent decoder maps each result back
    to sample values, which must equal the sample terms under the path condition (solver).
"""
import itertools
import sys

import z3

from . import common
from .comb import quiet
from . import designs as D
from symx import core, symsim
from symx.core import ctx, run_paths, pc_cond

import py4hw
from py4hw.logic.simulation import Waveform
from py4hw.logic.storage import Reg
from py4hw.logic.bitwise import Not, And2

PROP = 'C15'


def build(s):
    a, b = s.wire('a', 4), s.wire('b', 1)
    q, n, c = s.wire('q', 4), s.wire('n', 4), s.wire('c', 3)
    # a register in a second clock domain: its block is the FIRST clockable of the design, so that its domain is visited
    # before the domain of the recorder
    g = s.wire('g', 4)
    one = s.wire('one', 1)

    def body(bx):
        Reg(bx, 'greg', a, g)
    box = D.Box(s, 'dom2', {'a': a, 'one': one}, {'g': g}, body)
    box.clockDriver = py4hw.ClockDriver('ck2', base=s.clockDriver, enable=one)
    py4hw.Constant(s, 'one', 1, one)
    r = Reg(s, 'reg', a, q, enable=b)
    Not(s, 'inv', q, n)
    py4hw.Range(s, 'rng', n, 2, 0, c)
    return {'a': a, 'b': b, 'q': q, 'n': n, 'c': c, 'reg': r, 'g': g}


WATCH = {
    'input a': lambda w: [w['a']],
    'a,b,q': lambda w: [w['a'], w['b'], w['q']],
    'comb n and c': lambda w: [w['n'], w['c']],
    'duplicate q,q,a': lambda w: [w['q'], w['q'], w['a']],
    'port alias (reg.q port, q wire)': lambda w: [w['reg'].outPorts[0], w['q']],
    'in port and its wire': lambda w: [w['reg'].inPorts[0], w['a'], w['b']],
    'register of a second clock domain': lambda w: [w['g'], w['q']],
}

# schedules: list of clk() call sizes; 'C' = clear() ; inputs are re-poked before every clk call
SCHED = {
    '1x6': [1, 1, 1, 1, 1, 1],
    '6': [6],
    '2+1+3': [2, 1, 3],
    '0 cycles': [],
    'clk(0) then 2': [0, 2],
    '3, clear, 2': [3, 'C', 2],
    '1, clear, clear, 4': [1, 'C', 'C', 4],
    '2, Simulator(hw) again, 3': [2, 'S', 3],
    '1, getSimulator() again, 2, Simulator(hw) again, 1+1': [1, 'G', 2, 'S', 1, 1],
    '2, clear second, 2': [2, 'D', 2],
    '2, clear first, 1, clear second, 2': [2, 'C', 1, 'D', 2],
}


def run_capture(watch, sched, values=None, rec=None, with_wvf=True, second=False, late=False):
    """returns (recorded {wire name: list}, expected {wire name: list}, vars)"""
    with quiet():
        s = py4hw.HWSystem()
        w = build(s)
        wl = WATCH[watch](w)
        if late:
            # the recorder is attached to a design that has ALREADY been simulated: a first simulator is obtained and clocked once
            # (inputs 0) before the Waveform exists; nothing else changes in the design
            if values is None:
                symsim.instrument(s, rec)
            w['a'].put(0)
            w['b'].put(0)
            s.getSimulator().clk(1)
        wvf = Waveform(s, 'wvf', wl) if with_wvf else None
        # a second, independent recorder in the same design that shares wires with the first ('D' in a schedule clears only this one)
        wl2 = [w['q'], w['a']] if second else []
        wvf2 = Waveform(s, 'dbg', wl2) if (with_wvf and second) else None
        if values is None:
            symsim.instrument(s, rec)
        sim = s.getSimulator()
    vars_ = {}
    expected = {}
    uniq = []
    for x in wl:
        ww = Waveform.getwire(x)
        if not any(ww is u for u in uniq):
            uniq.append(ww)
    for ww in uniq:
        expected[ww.name] = []
    expected2 = {ww.name: [] for ww in wl2}
    step = 0
    for item in sched:
        if item == 'D':
            if wvf2 is not None:
                wvf2.clear()
            for k in expected2:
                expected2[k] = []
            continue
        if item == 'S':
            # the simulator is obtained again in the middle of a recording, the way the interactive test benches do it
            with quiet():
                sim = py4hw.simulation.Simulator(s)
            continue
        if item == 'G':
            with quiet():
                sim = s.getSimulator()
            continue
        if item == 'C':
            if wvf is not None:
                wvf.clear()
            for k in expected:
                expected[k] = []
            continue
        for nme in ('a', 'b'):
            key = '%s@%d' % (nme, step)
            if values is None:
                x, v = core.fresh(key, w[nme].getWidth())
                vars_[key] = v
            else:
                x = values.get(key, 0)
            w[nme].put(x)
        step += 1
        if with_wvf:
            with quiet():
                sim.clk(item)
        else:
            # twin: one cycle at a time, reading the wires going into each edge
            for _ in range(item):
                with quiet():
                    sim.propagateAll()
                for ww in uniq:
                    expected[ww.name].append(ww.value)
                for ww in wl2:
                    expected2[ww.name].append(ww.value)
                with quiet():
                    sim.clk(1)
    recorded = None
    if wvf is not None:
        recorded = {k.name: list(v) for k, v in wvf.getDict().items()}
    if second:
        run_capture.second = ({k.name: list(v) for k, v in wvf2.getDict().items()} if wvf2 is not None else None, expected2)
    return recorded, expected, vars_, wvf, s


def capture_task(p, cfg, rec):
    watch, sched = cfg['watch'], cfg['sched']
    second = cfg.get('second', False)
    late = cfg.get('late', False)
    recorded, _, vars_, wvf, s = run_capture(watch, SCHED[sched], rec=rec, second=second, late=late)
    rec2 = run_capture.second[0] if second else None
    _, expected, v2, _, _ = run_capture(watch, SCHED[sched], rec=rec, with_wvf=False, second=second, late=late)
    exp2 = run_capture.second[1] if second else None
    cycles = sum(x for x in SCHED[sched][max([i for i, x in enumerate(SCHED[sched]) if x == 'C'] + [-1]) + 1:] if x not in ('C', 'D', 'S', 'G'))
    p.res['states'] += 1
    p.res['transitions'] += cycles

    def replay(values):
        r, _, _, _, _ = run_capture(watch, SCHED[sched], values=values, second=second, late=late)
        r2 = run_capture.second[0] if second else None
        _, e, _, _, _ = run_capture(watch, SCHED[sched], values=values, with_wvf=False, second=second, late=late)
        e2 = run_capture.second[1] if second else None
        if second and r2 != e2:
            return {'second recorder': r2, 'carried_into_each_edge': e2, 'schedule': SCHED[sched]}
        return None if r == e else {'recorded': r, 'carried_into_each_edge': e, 'watch': watch, 'schedule': SCHED[sched]}
    p.structural('one entry per distinct watched wire', sorted(recorded) == sorted(expected), detail={'recorded': sorted(recorded), 'expected': sorted(expected)})
    for name in expected:
        got = recorded.get(name, [])
        p.structural('%s: exactly one sample per simulated cycle (%d)' % (name, cycles), len(got) == cycles == len(expected[name]),
                     detail={'samples': len(got), 'cycles': cycles})
        cs = []
        for k in range(min(len(got), len(expected[name]))):
            c = D.differ(got[k], expected[name][k])
            if c is not False:
                cs.append(z3.BoolVal(True) if c is True else c)
        p.prove('%s: every sample equals the value carried into that edge' % name, z3.Or(*cs) if cs else z3.BoolVal(False),
                inputs=vars_, replay=replay)
    if second:
        p.structural('second recorder: one entry per watched wire', sorted(rec2) == sorted(exp2), detail={'recorded': sorted(rec2), 'expected': sorted(exp2)})
        for name in exp2:
            got = rec2.get(name, [])
            p.structural('second recorder %s: one sample per cycle since its own last clear()' % name, len(got) == len(exp2[name]),
                         detail={'samples': len(got), 'expected': len(exp2[name])})
            cs = []
            for k in range(min(len(got), len(exp2[name]))):
                c = D.differ(got[k], exp2[name][k])
                if c is not False:
                    cs.append(z3.BoolVal(True) if c is True else c)
            p.prove('second recorder %s: every sample equals the value carried into that edge' % name, z3.Or(*cs) if cs else z3.BoolVal(False),
                    inputs=vars_, replay=replay)


# ---------------------------------------------------------------------------------------------------
def decode_wavedrom(wd, widths):
    """independent decoder of the rendering -> {signal name: [values]} ; raises ValueError on malformed output"""
    out = {}
    sigs = wd['signal']
    clk = sigs[0]
    if clk['name'] != 'clk' or not clk['wave'].startswith('P') or not clk['wave'].endswith('x'):
        raise ValueError('clock lane malformed: %r' % clk)
    if set(clk['wave'][1:-1]) - {'.'}:
        raise ValueError('clock lane malformed: %r' % clk)
    ncyc = len(clk['wave']) - 2
    for sg, width in zip(sigs[1:], widths):
        wave = sg['wave']
        if len(wave) < 2 or wave[0] != 'x' or wave[-1] != 'x':
            raise ValueError('lane without head/tail x: %r' % wave)
        body = wave[1:-1]
        labels = list(sg.get('data', []))
        vals = []
        for ch in body:
            if ch == '.':
                if not vals:
                    raise ValueError('run-length dot without a previous value')
                vals.append(vals[-1])
            elif width == 1:
                if ch not in '01':
                    raise ValueError('1-bit lane character %r' % ch)
                vals.append(int(ch))
            else:
                if ch != '2' or not labels:
                    raise ValueError('data lane character %r / missing label' % ch)
                lab = labels.pop(0)
                if lab != lab.upper():
                    raise ValueError('label not in the display format {:X}: %r' % lab)
                vals.append(int(lab, 16))
        if labels:
            raise ValueError('unused data labels %r' % labels)
        out.setdefault(sg['name'], []).append(vals)
    return out, ncyc


def make_wires(s):
    """wires for the rendering tasks; 'sub:c3' and 'sub:d4' live in a child block and share their SHORT names with
    top-level wires of another width"""
    ws = {'a1': s.wire('a1', 1), 'b1': s.wire('b1', 1), 'c3': s.wire('c3', 3), 'd4': s.wire('d4', 4)}
    sub = py4hw.Logic(s, 'sub')
    ws['sub:c3'] = sub.wire('c3', 1)
    ws['sub:d4'] = sub.wire('d4', 2)
    ws['sub:clk'] = sub.wire('clk', 1)          # a user signal that happens to be called like the clock lane of the rendering
    ws['sub:clk3'] = py4hw.Logic(s, 'div').wire('clk', 3)
    return ws


def render_task(p, cfg, rec):
    names, n = cfg['wires'], cfg['n']
    with quiet():
        s = py4hw.HWSystem()
        ws = make_wires(s)
        wl = [ws[x] for x in names]
        wvf = Waveform(s, 'wvf', wl)
        symsim.instrument(s, rec)
        sim = s.getSimulator()
    vars_ = {}
    pre = cfg.get('pre')
    if pre is not None:
        # an earlier recording of `pre` cycles that is discarded with clear()
        for x in set(names):
            sym, v = core.fresh('%s@pre' % x, ws[x].getWidth())
            vars_['%s@pre' % x] = v
            ws[x].put(sym)
        with quiet():
            sim.clk(pre)
        wvf.clear()
    for t in range(n):
        for x in set(names):
            key = '%s@%d' % (x, t)
            sym, v = core.fresh(key, ws[x].getWidth())
            vars_[key] = v
            ws[x].put(sym)
        with quiet():
            sim.clk(1)
    short = cfg.get('short', False)          # lanes labelled with the short wire names (get_wavedrom(shortNames=True))
    samples = {(ws[x].name if short else ws[x].getFullPath()): list(wvf.data[ws[x]]) for x in set(names)}
    widths = [ws[x].getWidth() for x in names]
    ctx.format_forks = True
    rec.add('py4hw.logic.simulation.Waveform.get_wavedrom')
    with quiet():
        res = run_paths(lambda: wvf.get_wavedrom(shortNames=True) if short else wvf.get_wavedrom())
    ctx.format_forks = False
    p.res['states'] += 1
    p.res['transitions'] += len(res)
    p.note('%s n=%d: %d rendering paths' % (names, n, len(res)))
    for k, r in enumerate(res):
        if r.exc is not None:
            p.structural('path %d: get_wavedrom() completes' % k, False, detail={'exception': repr(r.exc)})
            continue
        try:
            dec, ncyc = decode_wavedrom(r.ret, widths)
        except ValueError as e:
            rr, m = p.satisfiable(r.pc)
            p.structural('path %d: rendering is well formed' % k, False, detail={'error': str(e), 'rendering': r.ret['signal']})
            continue
        if ncyc != n:
            p.structural('path %d: rendering spans the recorded number of cycles' % k, False, detail={'clock lane': r.ret['signal'][0], 'cycles': n})
            continue
        conds = []
        bad_len = False
        for nm, lanes in dec.items():
            for vals in lanes:
                if len(vals) != n:
                    bad_len = True
                    continue
                for t in range(n):
                    c = D.differ(samples[nm][t], vals[t])
                    if c is not False:
                        conds.append(z3.BoolVal(True) if c is True else c)
        if bad_len:
            p.structural('path %d: every lane has one entry per cycle' % k, False, detail={'rendering': r.ret['signal']})
            continue

        def replay(values, ret=r.ret):
            with quiet():
                s2 = py4hw.HWSystem()
                w2 = make_wires(s2)
                wv2 = Waveform(s2, 'wvf', [w2[x] for x in names])
                sm = s2.getSimulator()
                if pre is not None:
                    for x in set(names):
                        w2[x].put(values.get('%s@pre' % x, 0))
                    sm.clk(pre)
                    wv2.clear()
                for t in range(n):
                    for x in set(names):
                        w2[x].put(values.get('%s@%d' % (x, t), 0))
                    sm.clk(1)
                wd = wv2.get_wavedrom(shortNames=True) if short else wv2.get_wavedrom()
            try:
                dec2, nc2 = decode_wavedrom(wd, widths)
            except ValueError as e:
                return {'error': str(e), 'rendering': wd['signal']}
            path2key = {w2[x].getFullPath(): x for x in set(names)}
            for nm, lanes in dec2.items():
                want = [values.get('%s@%d' % (path2key.get(nm, nm), t), 0) for t in range(n)]
                for vals in lanes:
                    if vals != want:
                        return {'signal': nm, 'decoded': vals, 'samples': want, 'rendering': wd['signal']}
            if nc2 != n:
                return {'clock lane cycles': nc2, 'recorded': n}
            return None
        p.prove('path %d/%d: decoded rendering equals the recorded samples' % (k + 1, len(res)),
                z3.And(pc_cond(r.pc), z3.Or(*conds)) if conds else z3.BoolVal(False), inputs=vars_, replay=replay)


def wide_table(w, quick):
    t = [0, (1 << 53) + 1, (1 << 63) + 1, (1 << 63) + 2, (1 << 64) - 2, (1 << 64) - 1]
    if not quick:
        t += [1, 1 << 53, (1 << 63) - 1, 1 << 63]
    if w > 64:
        t += [1 << 64, (1 << w) - 1]
    return sorted(set(v for v in t if v < (1 << w)))


def wide_render_task(p, cfg, rec):
    """wide wires (64/72 bits): each sample is table[selector] with a symbolic selector over a table of
    boundary values (around 2**53, 2**63, 2**64); the path explorer covers every selector combination, each
    path records and renders concretely, and the independent decoder must give back the samples"""
    w, n = cfg['w'], cfg['n']
    table = wide_table(w, p.tier == 'quick')
    sels = [core.fresh_range('sel@%d' % t, 0, len(table) - 1) for t in range(n)]
    p.assumptions = list(ctx.assumptions)
    rec.add('py4hw.logic.simulation.Waveform.get_wavedrom')
    rec.add('py4hw.logic.simulation.Waveform.clock')

    def record_and_render(vals):
        with quiet():
            s = py4hw.HWSystem()
            x = s.wire('x', w)
            wvf = Waveform(s, 'wvf', [x])
            sim = s.getSimulator()
            for v in vals:
                x.put(v)
                sim.clk(1)
            return wvf.get_wavedrom()

    def scenario():
        vals = [table[int(sel)] for sel, _ in sels]
        return vals, record_and_render(vals)
    res = run_paths(scenario)
    p.res['states'] += 1
    p.res['transitions'] += len(res)
    p.structural('every selector combination explored (%d)' % (len(table) ** n), len([r for r in res if r.exc is None]) == len(table) ** n,
                 detail={'paths': len(res), 'exceptions': [repr(r.exc) for r in res if r.exc is not None][:3]})
    bad = []
    for r in res:
        if r.exc is not None:
            continue
        vals, wd = r.ret
        try:
            dec, ncyc = decode_wavedrom(wd, [w])
            got = list(dec.values())[0][0]
        except (ValueError, IndexError) as e:
            bad.append({'samples': [hex(v) for v in vals], 'error': str(e), 'rendering': wd['signal']})
            continue
        if got != vals or ncyc != n:
            bad.append({'samples': [hex(v) for v in vals], 'decoded': [hex(v) for v in got], 'rendering': wd['signal']})
    p.structural('the rendering of every combination decodes back to the recorded samples', not bad, detail={'failing': bad[:3], 'count': len(bad)})


def tasks_for(tier):
    quick = tier == 'quick'
    t = []
    for wname in WATCH:
        for sname in SCHED:
            if 'second' in sname:
                continue
            if quick and wname not in ('a,b,q', 'duplicate q,q,a', 'port alias (reg.q port, q wire)', 'register of a second clock domain') and sname not in ('1x6', '3, clear, 2'):
                continue
            t.append(('capture watch[%s] schedule[%s]' % (wname, sname), capture_task, {'watch': wname, 'sched': sname}))
    # a recorder attached after the design was already simulated once
    for wname in (('a,b,q', 'comb n and c') if quick else ('a,b,q', 'comb n and c', 'duplicate q,q,a', 'port alias (reg.q port, q wire)', 'input a', 'register of a second clock domain')):
        for sname in ('2+1+3', '3, clear, 2', '1x6'):
            t.append(('capture with the recorder attached after a first simulator was obtained and clocked: watch[%s] schedule[%s]' % (wname, sname), capture_task,
                      {'watch': wname, 'sched': sname, 'late': True}))
    # two recorders in one design that share wires: samples, lengths and clear() of one must not touch the other
    for wname in (('a,b,q', 'comb n and c') if quick else ('a,b,q', 'comb n and c', 'duplicate q,q,a', 'port alias (reg.q port, q wire)', 'input a')):
        for sname in ('2+1+3', '3, clear, 2', '2, clear second, 2', '2, clear first, 1, clear second, 2'):
            t.append(('capture with a second recorder on q,a: watch[%s] schedule[%s]' % (wname, sname), capture_task, {'watch': wname, 'sched': sname, 'second': True}))
    rl = [(['a1'], 5), (['a1', 'b1'], 3), (['c3'], 3), (['a1', 'c3'], 2), (['a1', 'a1'], 3), (['a1'], 0), (['d4'], 2),
          (['c3', 'sub:c3'], 2), (['sub:c3', 'c3'], 2), (['d4', 'sub:d4'], 1)]
    if not quick:
        rl += [(['a1'], 7), (['c3'], 4), (['d4'], 3), (['a1', 'b1', 'c3'], 2), (['c3', 'c3'], 3), (['d4'], 0), (['a1', 'b1'], 5)]
    for names, n in rl:
        t.append(('render %s n=%d' % ('+'.join(names), n), render_task, {'wires': names, 'n': n}))
    # short lane names, including user signals called 'clk' (the name of the rendering's own clock lane)
    for names, n in ([(['a1', 'sub:clk'], 3), (['sub:clk3', 'b1'], 2), (['a1', 'c3'], 2)] if quick else
                     [(['a1', 'sub:clk'], 4), (['sub:clk3', 'b1'], 3), (['a1', 'c3'], 3), (['sub:clk'], 5), (['d4', 'sub:clk3'], 2)]):
        t.append(('render with short names %s n=%d' % ('+'.join(names), n), render_task, {'wires': names, 'n': n, 'short': True}))
    for w, n in ([(64, 3), (72, 2)] if quick else [(64, 3), (72, 3), (65, 2), (128, 2)]):
        t.append(('render a %d-bit wire, %d samples drawn from a table of boundary values by symbolic selectors' % (w, n), wide_render_task, {'w': w, 'n': n}))
    cl = [(['a1', 'c3'], 2, 3), (['a1'], 2, 0), (['c3'], 0, 2)]
    if not quick:
        cl += [(['a1', 'b1'], 3, 3), (['d4'], 1, 1), (['a1', 'c3'], 5, 1), (['c3', 'c3'], 2, 2)]
    for names, pre, n in cl:
        t.append(('render %s after %d cycles and clear(), n=%d' % ('+'.join(names), pre, n), render_task, {'wires': names, 'n': n, 'pre': pre}))
    return t


def main(argv=None):
    args = common.parse_args(PROP, argv)
    return common.run_check(
        PROP, 'model_checking', tasks_for(args.tier), args, design_ref='DESIGN.md section 3 (C15)',
        technique='symbolic execution of Waveform.clock under the real simulator (capture, solver equality with pre-edge terms) and path-complete symbolic execution of get_wavedrom with an independent decoder (solver decides path feasibility and decoded == samples)',
        assumptions=['expected samples come from a twin design without recorder, stepped one cycle at a time and read after propagateAll() before each edge',
                     'display format of multi-bit wires is upper-case hexadecimal ({:X}); 1-bit wires are drawn as 0/1 characters'],
        bounds={'capture': 'up to 6 cycles, 6 watch lists (wire, port, duplicates, aliases), 7 call schedules incl. 0 cycles and clear()',
                'rendering': '1-bit wires up to 5 (7) cycles, 3/4-bit wires up to 3 (4) cycles; every feasible path; also after an earlier recording of 0..5 cycles discarded with clear(); wide wires (64/72, thorough 65/128 bits): 2..3 samples, each drawn by a symbolic selector from a table of 6..12 boundary values around 2**53, 2**63, 2**64 and the top of the range (fully symbolic wide values are out of reach: the label format forks over every value)'},
        trusted_base=['z3', 'symx (format/compare forks are path-complete)', 'decoder in checks/c15.py'], task_limit=900)


if __name__ == '__main__':
    sys.exit(main())
