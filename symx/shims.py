"""
Per-module shims for builtins that insist on real ints.  The names are placed in the analysed
module's globals (and removed again by `uninstall`); every evidence file that used them lists them.
"""
import builtins

from .core import SymInt, SymBool

_real_isinstance = builtins.isinstance
_real_int = builtins.int


def sym_isinstance(x, cls):
    if _real_isinstance(x, (SymInt, SymBool)):
        if cls is _real_int or (_real_isinstance(cls, tuple) and _real_int in cls):
            return True
        if cls is float:
            return False
    return _real_isinstance(x, cls)


class _IntMeta(type):
    def __instancecheck__(cls, x):
        return _real_isinstance(x, (_real_int, SymInt, SymBool))


class sym_int(metaclass=_IntMeta):
    """int(x) that keeps symbolic integers symbolic"""
    def __new__(cls, x=0, *a):
        if _real_isinstance(x, SymInt):
            return x
        if _real_isinstance(x, SymBool):
            return x.as_int()
        if hasattr(x, '__sym_int__'):
            return x.__sym_int__()
        return _real_int(x, *a)


def _round(x, n=None):
    from .symfloat import sym_round
    return sym_round(x, n)


def _math():
    from .symfloat import MathShim
    return MathShim()


SHIMS = {'isinstance': sym_isinstance, 'int': sym_int, 'round': _round}


def install(module, names=('isinstance', 'int')):
    for n in names:
        if n == 'math':
            module.__dict__['__real_math'] = module.__dict__.get('math')
            module.__dict__['math'] = _math()
        else:
            module.__dict__[n] = SHIMS[n]


def uninstall(module, names=('isinstance', 'int')):
    for n in names:
        if n == 'math':
            if '__real_math' in module.__dict__:
                module.__dict__['math'] = module.__dict__.pop('__real_math')
        else:
            module.__dict__.pop(n, None)
