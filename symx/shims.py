"""
Per-module shims for builtins that insist on real ints.  The names are placed in the analysed
module's globals (and removed again by `uninstall`); every evidence file that used them lists them.
"""
import builtins

from .core import SymInt, SymBool

_real_isinstance = builtins.isinstance
_real_int = builtins.int


def sym_isinstance(x, cls):
    if _real_isinstance(x, (SymInt, SymBool)):
        if cls is _real_int or (_real_isinstance(cls, tuple) and _real_int in cls):
            return True
        if cls is float:
            return False
    return _real_isinstance(x, cls)


class _IntMeta(type):
    def __instancecheck__(cls, x):
        return _real_isinstance(x, (_real_int, SymInt, SymBool))


class sym_int(metaclass=_IntMeta):
    """int(x) that keeps symbolic integers symbolic"""
    def __new__(cls, x=0, *a):
        if _real_isinstance(x, SymInt):
            return x
        if _real_isinstance(x, SymBool):
            return x.as_int()
        if hasattr(x, '__sym_int__'):
            return x.__sym_int__()
        return _real_int(x, *a)


SHIMS = {'isinstance': sym_isinstance, 'int': sym_int}


def install(module, names=('isinstance', 'int')):
    for n in names:
        module.__dict__[n] = SHIMS[n]


def uninstall(module, names=('isinstance', 'int')):
    for n in names:
        module.__dict__.pop(n, None)
