"""
symx.core -- exact symbolic Python integers over widening z3 bit-vectors (engine E1).

A SymInt is a z3 bit-vector term read as a *signed* two's complement number plus a
conservative integer interval [lo, hi].  Every operator first computes the interval of the
mathematical (unbounded) result, widens the operands (sign extension) to a width in which
that result cannot overflow, and only then applies the bit-vector operator.  The value
denoted by the term is therefore the exact Python int the real code would compute.

SymBool.__bool__ is the only place where execution forks; forks are explored by the
decision-replay explorer in this module (run_paths / run_merged).
"""
import time
import z3

# ----------------------------------------------------------------------------------------
# errors

class Unsupported(Exception):
    """The symbolic engine cannot represent what the code under analysis asked for.
    Always reported as *inconclusive*, never as pass."""


class SymbolicPathError(Exception):
    """The code under analysis raised on a feasible symbolic path."""
    def __init__(self, exc, pc, where=''):
        super().__init__('%s: %r' % (where, exc))
        self.exc = exc
        self.pc = pc
        self.where = where


MISSING = object()

# ----------------------------------------------------------------------------------------
# global context


class Stats:
    def __init__(self):
        self.branch_checks = 0
        self.solver_time = 0.0
        self.paths = 0
        self.merges = 0
        self.forks = 0
        self.unknown_branches = 0


class Frame:
    __slots__ = ('prefix', 'pos', 'pc', 'trace', 'pending', 'model')

    def __init__(self):
        self.prefix = []
        self.pos = 0
        self.pc = []
        self.trace = []
        self.pending = []
        self.model = None


class Context:
    def __init__(self):
        self.reset()

    def reset(self):
        self.assumptions = []
        self.frames = []
        self.solver = None
        self.stats = Stats()
        self.listeners = []
        self.format_forks = False
        self.keep_symbolic = False          # C02: results are never folded to plain ints, so listeners see every value
        self.simplify_merge = True
        self.branch_timeout_ms = 20000
        self.max_index_values = 4096
        self.counter = 0

    def get_solver(self):
        if self.solver is None:
            self.solver = z3.Solver()
            self.solver.set('timeout', self.branch_timeout_ms)
            for a in self.assumptions:
                self.solver.add(a)
        return self.solver

    def assume(self, *conds):
        for c in conds:
            c = as_z3_bool(c)
            self.assumptions.append(c)
            if self.solver is not None:
                self.solver.add(c)

    def set_assumptions(self, conds):
        self.assumptions = [as_z3_bool(c) for c in conds]
        self.solver = None

    def full_pc(self):
        r = []
        for f in self.frames:
            r.extend(f.pc)
        return r


ctx = Context()


# ----------------------------------------------------------------------------------------
# helpers

def sbits(lo, hi):
    """minimal signed width containing [lo, hi]"""
    a = lo.bit_length() if lo >= 0 else (~lo).bit_length()
    b = hi.bit_length() if hi >= 0 else (~hi).bit_length()
    return max(a, b) + 1


def _ext(t, n):
    w = t.size()
    if w == n:
        return t
    if w < n:
        return z3.SignExt(n - w, t)
    return z3.Extract(n - 1, 0, t)


def is_sym(x):
    return isinstance(x, (SymInt, SymBool))


def as_z3_bool(c):
    if isinstance(c, SymBool):
        return c.b
    if isinstance(c, SymInt):
        return c.t != 0
    if isinstance(c, bool):
        return z3.BoolVal(c)
    if isinstance(c, int):
        return z3.BoolVal(c != 0)
    return c


def mk(t, lo, hi):
    """canonical constructor: returns an int when the interval is a point"""
    if lo > hi:
        raise Unsupported('empty interval')
    if lo == hi and not ctx.keep_symbolic:
        return lo
    n = sbits(lo, hi)
    t = _ext(t, n)
    r = SymInt.__new__(SymInt)
    r.t = t
    r.lo = lo
    r.hi = hi
    if ctx.listeners:
        for l in ctx.listeners:
            l(r)
    return r


def fresh(name, width):
    """fresh unsigned symbol of `width` bits: value in [0, 2**width-1]"""
    ctx.counter += 1
    v = z3.BitVec(name, width)
    return mk(z3.ZeroExt(1, v), 0, (1 << width) - 1), v


def fresh_range(name, lo, hi):
    """fresh integer symbol constrained (by global assumption) to lo..hi"""
    n = sbits(lo, hi)
    v = z3.BitVec(name, n)
    ctx.assume(z3.And(v >= lo, v <= hi))
    return mk(v, lo, hi), v


def fresh_bool(name):
    b = z3.Bool(name)
    return SymBool(b), b


def _pair(a, b):
    """coerce two operands (at least one SymInt) to (ta, tb, alo, ahi, blo, bhi)"""
    if isinstance(a, SymBool):
        a = a.as_int()
    if isinstance(b, SymBool):
        b = b.as_int()
    if isinstance(a, SymInt):
        alo, ahi, ta = a.lo, a.hi, a.t
    else:
        a = int(a)
        alo = ahi = a
        ta = None
    if isinstance(b, SymInt):
        blo, bhi, tb = b.lo, b.hi, b.t
    else:
        b = int(b)
        blo = bhi = b
        tb = None
    return ta, tb, alo, ahi, blo, bhi, a, b


def _terms(ta, tb, a, b, w):
    if ta is None:
        ta = z3.BitVecVal(a, w)
    else:
        ta = _ext(ta, w)
    if tb is None:
        tb = z3.BitVecVal(b, w)
    else:
        tb = _ext(tb, w)
    return ta, tb


def _isnum(x):
    return isinstance(x, (int, SymInt, SymBool)) and not isinstance(x, float)


# ----------------------------------------------------------------------------------------
# branching

def _check(conds):
    s = ctx.get_solver()
    t0 = time.time()
    s.push()
    try:
        for c in ctx.full_pc():
            s.add(c)
        for c in conds:
            s.add(c)
        r = s.check()
        m = s.model() if r == z3.sat else None
    finally:
        s.pop()
    ctx.stats.branch_checks += 1
    ctx.stats.solver_time += time.time() - t0
    if r == z3.unknown:
        ctx.stats.unknown_branches += 1
    return r, m


def _top():
    if not ctx.frames:
        raise Unsupported('symbolic branch outside an explorer')
    return ctx.frames[-1]


def choose_bool(cond):
    f = _top()
    if f.pos < len(f.prefix):
        d, forced = f.prefix[f.pos]
    else:
        c = z3.simplify(cond)
        if z3.is_true(c):
            d, forced = True, True
        elif z3.is_false(c):
            d, forced = False, True
        else:
            val = None
            if f.model is not None:
                e = f.model.eval(c, model_completion=True)
                if z3.is_true(e):
                    val = True
                elif z3.is_false(e):
                    val = False
            mt = mf = None
            if val is True:
                can_t, mt = True, f.model
                r, mf = _check([z3.Not(c)])
                can_f = r != z3.unsat
            elif val is False:
                can_f, mf = True, f.model
                r, mt = _check([c])
                can_t = r != z3.unsat
            else:
                r, mt = _check([c])
                can_t = r != z3.unsat
                r, mf = _check([z3.Not(c)])
                can_f = r != z3.unsat
            if can_t and can_f:
                f.pending.append((f.trace + [(False, False)], mf))
                ctx.stats.forks += 1
                d, forced = True, False
                f.model = mt
            elif can_t:
                d, forced = True, True
                f.model = mt
            elif can_f:
                d, forced = False, True
                f.model = mf
            else:
                raise Unsupported('infeasible path condition (unsatisfiable assumptions?)')
    f.pos += 1
    f.trace.append((d, forced))
    if not forced:
        f.pc.append(cond if d else z3.Not(cond))
    return d


def choose_value(x):
    """path-complete concretisation of a SymInt: forks over every feasible value"""
    f = _top()
    if f.pos < len(f.prefix):
        v, forced = f.prefix[f.pos]
    else:
        if x.hi - x.lo + 1 > ctx.max_index_values * 16:
            # still may be few feasible values; enumerate with a cap
            pass
        vals = []
        extra = []
        while True:
            r, m = _check(extra)
            if r == z3.unsat:
                break
            if r == z3.unknown:
                raise Unsupported('solver unknown while enumerating values')
            v = m.eval(x.t, model_completion=True).as_signed_long()
            vals.append(v)
            extra.append(x.t != v)
            if len(vals) > ctx.max_index_values:
                raise Unsupported('too many feasible values for concretisation (>%d)' % ctx.max_index_values)
        if not vals:
            raise Unsupported('infeasible path condition (unsatisfiable assumptions?)')
        vals.sort()
        forced = len(vals) == 1
        for alt in vals[1:]:
            f.pending.append((f.trace + [(alt, False)], None))
            ctx.stats.forks += 1
        v = vals[0]
        f.model = None
    f.pos += 1
    f.trace.append((v, forced))
    if not forced:
        f.pc.append(x.t == v)
    return v


# ----------------------------------------------------------------------------------------
# SymBool

class SymBool:
    __slots__ = ('b',)

    def __init__(self, b):
        self.b = b

    def __bool__(self):
        return choose_bool(self.b)

    def as_int(self):
        return mk(z3.If(self.b, z3.BitVecVal(1, 2), z3.BitVecVal(0, 2)), 0, 1)

    def __and__(self, o):
        if isinstance(o, SymBool):
            return SymBool(z3.And(self.b, o.b))
        if isinstance(o, bool):
            return self if o else False
        return self.as_int() & o

    __rand__ = __and__

    def __or__(self, o):
        if isinstance(o, SymBool):
            return SymBool(z3.Or(self.b, o.b))
        if isinstance(o, bool):
            return True if o else self
        return self.as_int() | o

    __ror__ = __or__

    def __xor__(self, o):
        if isinstance(o, SymBool):
            return SymBool(z3.Xor(self.b, o.b))
        if isinstance(o, bool):
            return SymBool(z3.Not(self.b)) if o else self
        return self.as_int() ^ o

    __rxor__ = __xor__

    def __invert__(self):
        return ~self.as_int()

    def __eq__(self, o):
        if isinstance(o, SymBool):
            return SymBool(self.b == o.b)
        return self.as_int() == o

    def __ne__(self, o):
        if isinstance(o, SymBool):
            return SymBool(self.b != o.b)
        return self.as_int() != o

    def __hash__(self):
        return hash(bool(self))

    def __index__(self):
        return 1 if bool(self) else 0

    __int__ = __index__

    def __repr__(self):
        return '<SymBool %s>' % (self.b.sexpr()[:80],)

    def __format__(self, spec):
        if ctx.format_forks:
            return format(bool(self), spec)
        return repr(self)

    def __str__(self):
        if ctx.format_forks:
            return str(bool(self))
        return repr(self)


def _delegate(name):
    def f(self, *a):
        return getattr(self.as_int(), name)(*a)
    f.__name__ = name
    return f


for _n in ['__add__', '__radd__', '__sub__', '__rsub__', '__mul__', '__rmul__', '__floordiv__',
           '__rfloordiv__', '__mod__', '__rmod__', '__lshift__', '__rlshift__', '__rshift__',
           '__rrshift__', '__neg__', '__pos__', '__abs__', '__lt__', '__le__', '__gt__', '__ge__',
           '__pow__', '__rpow__', '__truediv__', '__rtruediv__']:
    setattr(SymBool, _n, _delegate(_n))


# ----------------------------------------------------------------------------------------
# SymInt

SHIFT_LIMIT = 4096


class SymInt:
    __slots__ = ('t', 'lo', 'hi')

    def __init__(self, *a):
        raise TypeError('use symx.fresh()/mk()')

    # -- arithmetic --------------------------------------------------------------------
    def __add__(self, o):
        if not _isnum(o):
            return NotImplemented
        ta, tb, alo, ahi, blo, bhi, a, b = _pair(self, o)
        lo, hi = alo + blo, ahi + bhi
        w = sbits(min(lo, alo, blo), max(hi, ahi, bhi))
        ta, tb = _terms(ta, tb, a, b, w)
        return mk(ta + tb, lo, hi)

    __radd__ = __add__

    def __sub__(self, o):
        if not _isnum(o):
            return NotImplemented
        ta, tb, alo, ahi, blo, bhi, a, b = _pair(self, o)
        lo, hi = alo - bhi, ahi - blo
        w = sbits(min(lo, alo, blo), max(hi, ahi, bhi))
        ta, tb = _terms(ta, tb, a, b, w)
        return mk(ta - tb, lo, hi)

    def __rsub__(self, o):
        if not _isnum(o):
            return NotImplemented
        ta, tb, alo, ahi, blo, bhi, a, b = _pair(o, self)
        lo, hi = alo - bhi, ahi - blo
        w = sbits(min(lo, alo, blo), max(hi, ahi, bhi))
        ta, tb = _terms(ta, tb, a, b, w)
        return mk(ta - tb, lo, hi)

    def __mul__(self, o):
        if isinstance(o, float):
            raise Unsupported('SymInt * float')
        if not _isnum(o):
            return NotImplemented
        ta, tb, alo, ahi, blo, bhi, a, b = _pair(self, o)
        cs = (alo * blo, alo * bhi, ahi * blo, ahi * bhi)
        lo, hi = min(cs), max(cs)
        w = sbits(min(lo, alo, blo), max(hi, ahi, bhi))
        ta, tb = _terms(ta, tb, a, b, w)
        return mk(ta * tb, lo, hi)

    __rmul__ = __mul__

    def __neg__(self):
        lo, hi = -self.hi, -self.lo
        w = sbits(min(lo, self.lo), max(hi, self.hi))
        return mk(-_ext(self.t, w), lo, hi)

    def __pos__(self):
        return self

    def __abs__(self):
        if self.lo >= 0:
            return self
        if self.hi <= 0:
            return -self
        hi = max(-self.lo, self.hi)
        w = sbits(self.lo, hi)
        t = _ext(self.t, w)
        return mk(z3.If(t < 0, -t, t), 0, hi)

    def __invert__(self):
        return mk(~self.t, ~self.hi, ~self.lo)

    # -- bitwise -----------------------------------------------------------------------
    def __and__(self, o):
        if not _isnum(o):
            return NotImplemented
        ta, tb, alo, ahi, blo, bhi, a, b = _pair(self, o)
        w = sbits(min(alo, blo), max(ahi, bhi))
        if alo >= 0 and blo >= 0:
            lo, hi = 0, min(ahi, bhi)
        elif alo >= 0:
            lo, hi = 0, ahi
        elif blo >= 0:
            lo, hi = 0, bhi
        else:
            lo, hi = -(1 << (w - 1)), (1 << (w - 1)) - 1
        ta2, tb2 = _terms(ta, tb, a, b, w)
        t = ta2 & tb2
        if (ta is None or tb is None) and w <= 160 and not ctx.keep_symbolic:
            # masking with a constant is how fields are extracted: let z3 fold it (a field of a
            # partly concrete word often is a plain number)
            ts = z3.simplify(t)
            if z3.is_bv_value(ts):
                v = ts.as_signed_long()
                if lo <= v <= hi:
                    return v
            # otherwise keep the unsimplified term: rewriting would change shared sub-terms
        return mk(t, lo, hi)

    __rand__ = __and__

    def __or__(self, o):
        if not _isnum(o):
            return NotImplemented
        ta, tb, alo, ahi, blo, bhi, a, b = _pair(self, o)
        w = sbits(min(alo, blo), max(ahi, bhi))
        if alo >= 0 and blo >= 0:
            lo, hi = max(alo, blo), (1 << max(ahi.bit_length(), bhi.bit_length())) - 1
        elif ahi < 0 or bhi < 0:
            lo, hi = -(1 << (w - 1)), -1
        else:
            lo, hi = -(1 << (w - 1)), (1 << (w - 1)) - 1
        ta, tb = _terms(ta, tb, a, b, w)
        return mk(ta | tb, lo, hi)

    __ror__ = __or__

    def __xor__(self, o):
        if not _isnum(o):
            return NotImplemented
        ta, tb, alo, ahi, blo, bhi, a, b = _pair(self, o)
        w = sbits(min(alo, blo), max(ahi, bhi))
        if alo >= 0 and blo >= 0:
            lo, hi = 0, (1 << max(ahi.bit_length(), bhi.bit_length())) - 1
        else:
            lo, hi = -(1 << (w - 1)), (1 << (w - 1)) - 1
        ta, tb = _terms(ta, tb, a, b, w)
        return mk(ta ^ tb, lo, hi)

    __rxor__ = __xor__

    # -- shifts ------------------------------------------------------------------------
    def __lshift__(self, o):
        if not _isnum(o):
            return NotImplemented
        return _shl(self, o)

    def __rlshift__(self, o):
        if not _isnum(o):
            return NotImplemented
        return _shl(o, self)

    def __rshift__(self, o):
        if not _isnum(o):
            return NotImplemented
        return _shr(self, o)

    def __rrshift__(self, o):
        if not _isnum(o):
            return NotImplemented
        return _shr(o, self)

    # -- division ----------------------------------------------------------------------
    def __floordiv__(self, o):
        if isinstance(o, float):
            raise Unsupported('SymInt // float')
        if not _isnum(o):
            return NotImplemented
        return _divmod(self, o)[0]

    def __rfloordiv__(self, o):
        if not _isnum(o):
            return NotImplemented
        return _divmod(o, self)[0]

    def __mod__(self, o):
        if isinstance(o, float):
            raise Unsupported('SymInt % float')
        if not _isnum(o):
            return NotImplemented
        return _divmod(self, o)[1]

    def __rmod__(self, o):
        if not _isnum(o):
            return NotImplemented
        return _divmod(o, self)[1]

    def __divmod__(self, o):
        return _divmod(self, o)

    def __rdivmod__(self, o):
        return _divmod(o, self)

    def __truediv__(self, o):
        from . import symfloat                 # exact only for a power-of-two divisor
        if is_sym(o) or isinstance(o, symfloat.SymFloat):
            raise Unsupported('true division by a symbolic value')
        return symfloat.int_truediv(self, o)

    def __rtruediv__(self, o):
        raise Unsupported('true division by a symbolic int (float result)')

    def __pow__(self, o, m=None):
        if m is not None or is_sym(o) or not isinstance(o, int) or o < 0:
            raise Unsupported('pow with symbolic or negative exponent')
        r = 1
        for _ in range(o):
            r = r * self
        return r

    def __rpow__(self, o):
        if isinstance(o, int) and o == 2:
            return 1 << self
        raise Unsupported('pow with symbolic exponent')

    # -- comparisons -------------------------------------------------------------------
    def _cmp(self, o, op):
        if isinstance(o, float):
            if o != int(o):
                raise Unsupported('compare SymInt with non-integral float')
            o = int(o)
        if not _isnum(o):
            return NotImplemented
        ta, tb, alo, ahi, blo, bhi, a, b = _pair(self, o)
        # decide by intervals when possible
        if ctx.keep_symbolic:
            pass
        elif op == 'lt':
            if ahi < blo: return True
            if alo >= bhi: return False
        elif op == 'le':
            if ahi <= blo: return True
            if alo > bhi: return False
        elif op == 'gt':
            if alo > bhi: return True
            if ahi <= blo: return False
        elif op == 'ge':
            if alo >= bhi: return True
            if ahi < blo: return False
        elif op == 'eq':
            if ahi < blo or alo > bhi: return False
        elif op == 'ne':
            if ahi < blo or alo > bhi: return True
        w = sbits(min(alo, blo), max(ahi, bhi))
        ta, tb = _terms(ta, tb, a, b, w)
        if op == 'lt': return SymBool(ta < tb)
        if op == 'le': return SymBool(ta <= tb)
        if op == 'gt': return SymBool(ta > tb)
        if op == 'ge': return SymBool(ta >= tb)
        if op == 'eq': return SymBool(ta == tb)
        return SymBool(ta != tb)

    def __lt__(self, o): return self._cmp(o, 'lt')
    def __le__(self, o): return self._cmp(o, 'le')
    def __gt__(self, o): return self._cmp(o, 'gt')
    def __ge__(self, o): return self._cmp(o, 'ge')
    def __eq__(self, o): return self._cmp(o, 'eq')
    def __ne__(self, o): return self._cmp(o, 'ne')

    # -- conversions -------------------------------------------------------------------
    def __bool__(self):
        if self.lo > 0 or self.hi < 0:
            return True
        return choose_bool(self.t != 0)

    def __index__(self):
        return choose_value(self)

    def __int__(self):
        return choose_value(self)

    def __hash__(self):
        return hash(choose_value(self))

    def __round__(self, n=None):
        return self

    def __trunc__(self):
        return self

    def __floor__(self):
        return self

    def __ceil__(self):
        return self

    def __float__(self):
        raise Unsupported('float() of a symbolic int')

    def bit_length(self):
        a = abs(self)
        if isinstance(a, int):
            return a.bit_length()
        n = a.hi.bit_length()
        w = a.t.size()
        r = z3.BitVecVal(0, sbits(0, n))
        for k in range(1, n + 1):
            r = z3.If(z3.UGE(a.t, z3.BitVecVal(1 << (k - 1), w)), z3.BitVecVal(k, r.size()), r)
        return mk(r, 0, n)

    def __repr__(self):
        return '<SymInt [%d,%d] %s>' % (self.lo, self.hi, self.t.sexpr()[:60].replace('\n', ' '))

    def __format__(self, spec):
        if ctx.format_forks:
            return format(choose_value(self), spec)
        return repr(self)

    def __str__(self):
        if ctx.format_forks:
            return str(choose_value(self))
        return repr(self)


def _shl(a, b):
    ta, tb, alo, ahi, blo, bhi, a, b = _pair(a, b)
    if blo < 0:
        if (b < 0) if isinstance(b, int) else bool(b < 0):
            raise ValueError('negative shift count')
        blo = 0
    if bhi > SHIFT_LIMIT:
        raise Unsupported('left shift amount bound too large (%d)' % bhi)
    lo = (alo << bhi) if alo < 0 else (alo << blo)
    hi = (ahi << bhi) if ahi > 0 else (ahi << blo)
    w = sbits(min(lo, alo, blo), max(hi, ahi, bhi))
    ta, tb = _terms(ta, tb, a, b, w)
    return mk(ta << tb, lo, hi)


def _shr(a, b):
    ta, tb, alo, ahi, blo, bhi, a, b = _pair(a, b)
    if blo < 0:
        if (b < 0) if isinstance(b, int) else bool(b < 0):
            raise ValueError('negative shift count')
        blo = 0
    lo = (alo >> blo) if alo < 0 else (alo >> bhi)
    hi = (ahi >> blo) if ahi >= 0 else (ahi >> bhi)
    w = sbits(min(alo, blo), max(ahi, bhi))
    ta, tb = _terms(ta, tb, a, b, w)
    return mk(ta >> tb, lo, hi)          # z3py '>>' on BitVecRef is arithmetic shift


def _divmod(a, b):
    ta, tb, alo, ahi, blo, bhi, a, b = _pair(a, b)
    if blo <= 0 <= bhi:
        z = (b == 0)
        if (z if isinstance(z, bool) else bool(z)):
            raise ZeroDivisionError('integer division or modulo by zero')
        if blo == 0:
            blo = 1
        if bhi == 0:
            bhi = -1
    if alo >= 0 and blo > 0:
        w = sbits(0, max(ahi, bhi))
        ta, tb = _terms(ta, tb, a, b, w)
        q = mk(z3.UDiv(ta, tb), alo // bhi, ahi // blo)
        r = mk(z3.URem(ta, tb), 0, min(ahi, bhi - 1))
        return q, r
    w = sbits(min(alo, blo), max(ahi, bhi)) + 1
    ta, tb = _terms(ta, tb, a, b, w)
    q0 = ta / tb                      # bvsdiv: truncation toward zero
    r0 = z3.SRem(ta, tb)              # sign follows dividend
    adj = z3.And(r0 != 0, (r0 < 0) != (tb < 0))
    qt = z3.If(adj, q0 - 1, q0)
    rt = z3.If(adj, r0 + tb, r0)
    m = max(abs(alo), abs(ahi))
    if blo > 0:
        rlo, rhi = 0, bhi - 1
    elif bhi < 0:
        rlo, rhi = blo + 1, 0
    else:
        rlo, rhi = min(blo + 1, 0), max(bhi - 1, 0)
    return mk(qt, -m, m), mk(rt, rlo, rhi)


# ----------------------------------------------------------------------------------------
# merging

def to_term(v, w):
    if isinstance(v, SymBool):
        v = v.as_int()
    if isinstance(v, SymInt):
        return _ext(v.t, w)
    return z3.BitVecVal(int(v), w)


def _bounds(v):
    if isinstance(v, SymBool):
        return 0, 1
    if isinstance(v, SymInt):
        return v.lo, v.hi
    v = int(v)
    return v, v


def same_value(a, b):
    if a is b:
        return True
    if isinstance(a, SymInt) and isinstance(b, SymInt):
        return a.t.eq(b.t)
    if isinstance(a, SymBool) and isinstance(b, SymBool):
        return a.b.eq(b.b)
    if is_sym(a) or is_sym(b):
        return False
    if isinstance(a, (int, bool)) and isinstance(b, (int, bool)):
        return type(a) is type(b) and a == b
    return False


def ite(c, a, b):
    """symbolic if-then-else on numeric values"""
    c = as_z3_bool(c)
    if z3.is_true(c):
        return a
    if z3.is_false(c):
        return b
    if same_value(a, b):
        return a
    if isinstance(a, (SymBool, bool)) and isinstance(b, (SymBool, bool)):
        return SymBool(z3.If(c, as_z3_bool(a), as_z3_bool(b)))
    alo, ahi = _bounds(a)
    blo, bhi = _bounds(b)
    lo, hi = min(alo, blo), max(ahi, bhi)
    w = sbits(lo, hi)
    return mk(z3.If(c, to_term(a, w), to_term(b, w)), lo, hi)


def simplify_value(v):
    if isinstance(v, SymInt):
        t = z3.simplify(v.t)
        if z3.is_bv_value(t):
            return t.as_signed_long()
        r = SymInt.__new__(SymInt)
        r.t, r.lo, r.hi = t, v.lo, v.hi
        return r
    if isinstance(v, SymBool):
        b = z3.simplify(v.b)
        if z3.is_true(b):
            return True
        if z3.is_false(b):
            return False
        return SymBool(b)
    return v


def merge_values(conds, vals):
    """conds[i] (z3 Bool) selects vals[i]; the conds partition the feasible space."""
    first = vals[0]
    if all(same_value(first, v) for v in vals[1:]):
        return first
    if any(v is MISSING for v in vals):
        raise Unsupported('attribute exists on some paths only')
    if all(isinstance(v, list) for v in vals):
        n = len(first)
        if any(len(v) != n for v in vals):
            raise Unsupported('list length differs between paths')
        return [merge_values(conds, [v[k] for v in vals]) for k in range(n)]
    if all(isinstance(v, dict) for v in vals):
        keys = list(first)
        if any(list(v) != keys for v in vals):
            raise Unsupported('dictionary keys differ between paths')
        return {k: merge_values(conds, [v[k] for v in vals]) for k in keys}
    if all(_isnum(v) for v in vals):
        r = vals[-1]
        for c, v in zip(reversed(conds[:-1]), reversed(vals[:-1])):
            r = ite(c, v, r)
        if ctx.simplify_merge:
            r = simplify_value(r)
        return r
    if all(v is first for v in vals):
        return first
    raise Unsupported('cannot merge values of types %s' % sorted(set(type(v).__name__ for v in vals)))


# ----------------------------------------------------------------------------------------
# explorer

class PathResult:
    __slots__ = ('pc', 'ret', 'exc', 'state')

    def __init__(self, pc, ret, exc, state):
        self.pc = pc
        self.ret = ret
        self.exc = exc
        self.state = state


def run_paths(fn, snapshot=None, restore=None, capture=None, max_paths=100000):
    """Execute fn() once per feasible path. snapshot()/restore(s) bracket every run so that
    each path starts from the same state; capture() is called at the end of each path."""
    frame = Frame()
    pre = snapshot() if snapshot else None
    results = []
    todo = [([], None)]
    ctx.frames.append(frame)
    try:
        while todo:
            prefix, model = todo.pop()
            frame.prefix = prefix
            frame.pos = 0
            frame.pc = []
            frame.trace = []
            frame.pending = []
            frame.model = model
            # re-create the pc of the prefix lazily: decisions replay through choose_*
            if restore and results:
                restore(pre)
            exc = None
            ret = None
            try:
                ret = fn()
            except Unsupported:
                raise
            except SymbolicPathError:
                raise
            except Exception as e:          # the code under analysis raised on this path
                exc = e
            st = capture() if capture else None
            results.append(PathResult(list(frame.pc), ret, exc, st))
            todo.extend(frame.pending)
            ctx.stats.paths += 1
            if len(results) > max_paths:
                raise Unsupported('path explosion (> %d paths)' % max_paths)
    finally:
        ctx.frames.pop()
    return results


def pc_cond(pc):
    if not pc:
        return z3.BoolVal(True)
    if len(pc) == 1:
        return pc[0]
    return z3.And(*pc)


def run_value(fn, where='', allow_exc=()):
    """Run a side-effect free function symbolically and merge its return value."""
    res = run_paths(fn)
    ok = []
    for r in res:
        if r.exc is not None:
            if isinstance(r.exc, allow_exc):
                continue
            raise SymbolicPathError(r.exc, ctx.full_pc() + r.pc, where)
        ok.append(r)
    conds = [pc_cond(r.pc) for r in ok]
    vals = [r.ret for r in ok]
    if not ok:
        raise Unsupported('no normal path')
    ctx.stats.merges += 1
    if all(isinstance(v, tuple) for v in vals):
        n = len(vals[0])
        return tuple(merge_values(conds, [v[k] for v in vals]) for k in range(n))
    return merge_values(conds, vals)


# ----------------------------------------------------------------------------------------
# evaluation under a model (used for replay and for validating traces)

def eval_value(v, model):
    """evaluate int/SymInt/SymBool under a z3 model -> python int/bool"""
    if isinstance(v, SymInt):
        return model.eval(v.t, model_completion=True).as_signed_long()
    if isinstance(v, SymBool):
        return z3.is_true(model.eval(v.b, model_completion=True))
    return v


def subst_value(v, pairs):
    """evaluate under a substitution [(z3 var, python int)] -> python int"""
    if isinstance(v, SymInt):
        sub = [(x, z3.BitVecVal(val, x.size())) if z3.is_bv(x) else (x, z3.BoolVal(bool(val))) for x, val in pairs]
        t = z3.simplify(z3.substitute(v.t, *sub))
        if not z3.is_bv_value(t):
            raise Unsupported('term not closed under substitution')
        return t.as_signed_long()
    if isinstance(v, SymBool):
        sub = [(x, z3.BitVecVal(val, x.size())) if z3.is_bv(x) else (x, z3.BoolVal(bool(val))) for x, val in pairs]
        t = z3.simplify(z3.substitute(v.b, *sub))
        if z3.is_true(t):
            return True
        if z3.is_false(t):
            return False
        raise Unsupported('term not closed under substitution')
    return v
