"""
symx.symfloat -- an exact dyadic model of IEEE-754 double arithmetic for the number-format
helpers (C12).  A SymFloat denotes  sign * M * 2**E  with a concrete sign (+1/-1), a
non-negative integer mantissa M (int or SymInt) and a concrete exponent E.

Only operations that are EXACT in double arithmetic are modelled, and each result is checked to
be exactly representable (mantissa below 2**53, exponent inside the double range); everything
else raises Unsupported, which the checks report as inconclusive.  Floats are never treated as
reals.
"""
import math as _math

import z3

from . import core
from .core import SymInt, SymBool, Unsupported, mk


def _pow2(x):
    """x is a Python number that is +-2**k -> (sign, k), else None"""
    if isinstance(x, bool):
        x = int(x)
    if isinstance(x, int):
        if x == 0:
            return None
        s = 1 if x > 0 else -1
        a = abs(x)
        if a & (a - 1) == 0:
            return s, a.bit_length() - 1
        return None
    if isinstance(x, float):
        if x == 0 or _math.isinf(x) or _math.isnan(x):
            return None
        m, e = _math.frexp(abs(x))
        if m == 0.5:
            return (1 if x > 0 else -1), e - 1
        return None
    return None


def _dyadic(x):
    """concrete number -> (sign, M, E) exactly"""
    if isinstance(x, int):
        return (1 if x >= 0 else -1), abs(x), 0
    if isinstance(x, float):
        if _math.isinf(x) or _math.isnan(x):
            raise Unsupported('inf/nan operand')
        s = -1 if _math.copysign(1, x) < 0 else 1
        m, e = _math.frexp(abs(x))
        M = int(m * (1 << 53))
        return s, M, e - 53
    raise Unsupported('operand type %s' % type(x).__name__)


def _bounds(M):
    if isinstance(M, SymInt):
        return M.lo, M.hi
    return M, M


class SymFloat:
    __slots__ = ('s', 'M', 'E')

    def __init__(self, s, M, E):
        lo, hi = _bounds(M)
        if lo < 0:
            raise Unsupported('negative mantissa')
        if hi >= (1 << 53) and (not isinstance(M, int) or (M >> (max(0, (M & -M).bit_length() - 1))).bit_length() > 53):
            raise Unsupported('result needs more than 53 mantissa bits (not exact in double arithmetic)')
        if hi > 0:
            top = E + hi.bit_length() - 1
            if top > 1023:
                raise Unsupported('overflow of the double range')
            if E < -1074:
                # below the subnormal grid: only exact if the low bits are zero, which we cannot assume
                raise Unsupported('underflow of the double grid')
        self.s, self.M, self.E = s, M, E

    # -- helpers ------------------------------------------------------------------------------
    def _scaled(self, E):
        """mantissa expressed at exponent E <= self.E"""
        return self.M << (self.E - E) if self.E > E else self.M

    def __neg__(self):
        return SymFloat(-self.s, self.M, self.E)

    def __pos__(self):
        return self

    def __abs__(self):
        return SymFloat(1, self.M, self.E)

    def is_zero(self):
        z = (self.M == 0)
        return z if isinstance(z, bool) else bool(z)

    # -- multiplicative: only powers of two (exact) -------------------------------------------
    def __mul__(self, o):
        if isinstance(o, SymFloat):
            p = None
            if isinstance(o.M, int) and o.M and (o.M & (o.M - 1)) == 0:
                return SymFloat(self.s * o.s, self.M, self.E + o.E + o.M.bit_length() - 1)
            if isinstance(self.M, int) and self.M and (self.M & (self.M - 1)) == 0:
                return SymFloat(self.s * o.s, o.M, o.E + self.E + self.M.bit_length() - 1)
            raise Unsupported('product of two non-power-of-two floats')
        p = _pow2(o)
        if p is None:
            if o == 0:
                return 0.0 * self.s
            raise Unsupported('multiplication by %r (not a power of two)' % (o,))
        return SymFloat(self.s * p[0], self.M, self.E + p[1])

    __rmul__ = __mul__

    def __truediv__(self, o):
        p = _pow2(o)
        if p is None:
            raise Unsupported('division by %r (not a power of two)' % (o,))
        return SymFloat(self.s * p[0], self.M, self.E - p[1])

    # -- additive: exact alignment ---------------------------------------------------------------
    def _addsub(self, o, sub):
        if not isinstance(o, SymFloat):
            s, M, E = _dyadic(o)
            o = SymFloat(s, M, E) if M else None
            if o is None:
                return self
        os_ = -o.s if sub else o.s
        E = min(self.E, o.E)
        a, b = self._scaled(E), o._scaled(E)
        if self.s == os_:
            return SymFloat(self.s, a + b, E)
        d = a - b                     # may be negative: decide the sign on this path
        neg = (d < 0)
        if not isinstance(neg, bool):
            neg = bool(neg)
        return SymFloat(-self.s if neg else self.s, -d if neg else d, E)

    def __add__(self, o):
        return self._addsub(o, False)

    __radd__ = __add__

    def __sub__(self, o):
        return self._addsub(o, True)

    def __rsub__(self, o):
        return (-self)._addsub(o, False)

    # -- comparisons ---------------------------------------------------------------------------------
    def _cmp(self, o, op):
        if isinstance(o, SymFloat):
            os_, oM, oE = o.s, o.M, o.E
        else:
            os_, oM, oE = _dyadic(o)
        E = min(self.E, oE)
        a = (self.M << (self.E - E)) * self.s if True else None
        b = (oM << (oE - E)) * os_
        if op == 'lt': return a < b
        if op == 'le': return a <= b
        if op == 'gt': return a > b
        if op == 'ge': return a >= b
        if op == 'eq': return a == b
        return a != b

    def __lt__(self, o): return self._cmp(o, 'lt')
    def __le__(self, o): return self._cmp(o, 'le')
    def __gt__(self, o): return self._cmp(o, 'gt')
    def __ge__(self, o): return self._cmp(o, 'ge')
    def __eq__(self, o): return self._cmp(o, 'eq')
    def __ne__(self, o): return self._cmp(o, 'ne')
    __hash__ = None

    def __bool__(self):
        z = (self.M != 0)
        return z if isinstance(z, bool) else bool(z)

    # -- conversions -------------------------------------------------------------------------------------
    def _exact_int(self, what):
        """integer value when the number is integral on this path (checked by the solver)"""
        if self.E >= 0:
            return self.s * (self.M << self.E)
        k = -self.E
        frac = self.M & ((1 << k) - 1)
        z = (frac == 0)
        if not (z if isinstance(z, bool) else bool(z)):
            raise Unsupported('%s of a non-integral value (rounding is outside the exact model)' % what)
        return self.s * (self.M >> k)

    def __sym_int__(self):
        return self._exact_int('int()')

    def __round__(self, n=None):
        return self._exact_int('round()')

    def __float__(self):
        raise Unsupported('float() of a symbolic float')

    def __repr__(self):
        return '<SymFloat %s%r*2**%d>' % ('-' if self.s < 0 else '', self.M, self.E)


def int_truediv(a, b):
    """SymInt / int -> SymFloat (exact for a power-of-two divisor)"""
    p = _pow2(b)
    if p is None:
        raise Unsupported('true division by %r' % (b,))
    neg = (a < 0)
    if not isinstance(neg, bool):
        neg = bool(neg)
    return SymFloat((-1 if neg else 1) * p[0], -a if neg else a, -p[1])


class MathShim:
    """stands in for the `math` module inside the analysed module"""
    inf = _math.inf
    nan = _math.nan
    pi = _math.pi

    @staticmethod
    def isinf(x):
        return False if isinstance(x, SymFloat) else _math.isinf(x)

    @staticmethod
    def isnan(x):
        return False if isinstance(x, SymFloat) else _math.isnan(x)

    @staticmethod
    def copysign(a, b):
        if isinstance(b, SymFloat):
            return _math.copysign(a, b.s)
        return _math.copysign(a, b)

    @staticmethod
    def pow(a, b):
        if core.is_sym(a) or core.is_sym(b) or isinstance(a, SymFloat) or isinstance(b, SymFloat):
            raise Unsupported('math.pow with a symbolic argument')
        return _math.pow(a, b)

    def __getattr__(self, n):
        return getattr(_math, n)


def sym_round(x, n=None):
    if isinstance(x, SymFloat):
        return x.__round__(n)
    if isinstance(x, (SymInt, SymBool)):
        return x
    return round(x) if n is None else round(x, n)
