"""
symx.symsim -- run the real py4hw simulator on symbolic wires.

Every leaf instance gets its propagate()/clock() wrapped by a fork-and-merge shell:
all feasible paths of the *real* method are executed, and the post states (leaf integer
attributes, integer lists, port wire value/next, Wire.prepared) are merged with ite().
The real Simulator (topologicalSort, propagateAll, clk, _clk_cycle, Wire.settleAll) runs
unchanged.
"""
import z3
from . import core
from .core import (ctx, MISSING, Unsupported, SymbolicPathError, SymInt, SymBool, run_paths,
                   merge_values, pc_cond, is_sym, same_value)

import py4hw
from py4hw.base import Wire, Logic

_NUM = (int, bool, SymInt, SymBool)


def _is_state_value(v):
    if isinstance(v, _NUM) or v is None:
        return True                      # None: a state attribute that has not been given a number yet ('no previous value')
    if isinstance(v, list) and all(isinstance(e, _NUM) or e is None for e in v):
        return True                      # (an empty list counts: capture buffers start empty)
    if isinstance(v, dict) and all(isinstance(k, (int, str, tuple, bool)) and (isinstance(e, _NUM) or e is None) for k, e in v.items()):
        return True                      # small caches / tables keyed by concrete values
    return False


def _copy_state(v):
    return list(v) if isinstance(v, list) else (dict(v) if isinstance(v, dict) else v)


class Region:
    """A set of mutable cells that a symbolic region may modify."""

    def __init__(self, objs, wires, extra_attr_cells=()):
        self.objs = list(objs)            # Logic leaves whose numeric attributes are state
        self.wires = list(wires)          # wires whose value/next are state
        self.extra = list(extra_attr_cells)   # (obj, attrname)

    def snapshot(self):
        attrs = []
        for o in self.objs:
            d = {}
            for k, v in o.__dict__.items():
                if _is_state_value(v):
                    d[k] = _copy_state(v)
            attrs.append(d)
        wv = [(w.value, w.__dict__.get('next', MISSING)) for w in self.wires]
        ex = [getattr(o, a, MISSING) for o, a in self.extra]
        return (attrs, wv, list(Wire.prepared), ex)

    def restore(self, s):
        attrs, wv, prep, ex = s
        for o, d in zip(self.objs, attrs):
            for k in [k for k, v in o.__dict__.items() if _is_state_value(v) and k not in d]:
                del o.__dict__[k]
            for k, v in d.items():
                o.__dict__[k] = _copy_state(v)
        for w, (v, n) in zip(self.wires, wv):
            w.value = v
            if n is MISSING:
                w.__dict__.pop('next', None)
            else:
                w.next = n
        Wire.prepared = list(prep)
        for (o, a), v in zip(self.extra, ex):
            if v is MISSING:
                if hasattr(o, a):
                    delattr(o, a)
            else:
                setattr(o, a, v)


def run_merged(fn, region, where='', on_exception='raise'):
    """Explore every feasible path of fn() from the current state of `region` and leave the
    region in the ite-merged post state.  Returns the list of PathResult (for audits)."""
    pre = region.snapshot()
    res = run_paths(fn, snapshot=None, restore=lambda s: region.restore(pre), capture=region.snapshot)
    ok = []
    for r in res:
        if r.exc is not None:
            if on_exception == 'raise':
                region.restore(pre)
                raise SymbolicPathError(r.exc, ctx.full_pc() + r.pc, where)
            continue
        ok.append(r)
    if not ok:
        region.restore(pre)
        raise Unsupported('no normal path in ' + where)
    if len(ok) == 1 and len(res) == 1:
        return res                      # single path: the current state is the post state
    ctx.stats.merges += 1
    conds = [pc_cond(r.pc) for r in ok]
    n_pre = len(pre[2])
    # --- attributes
    m_attrs = []
    for i, o in enumerate(region.objs):
        keys = []
        for r in ok:
            for k in r.state[0][i]:
                if k not in keys:
                    keys.append(k)
        d = {}
        for k in keys:
            d[k] = merge_values(conds, [r.state[0][i].get(k, MISSING) for r in ok])
        m_attrs.append(d)
    # --- prepared list: union of the wires newly prepared on any path
    new_prepared = []
    for r in ok:
        p = r.state[2]
        if len(p) < n_pre or not all(a is b for a, b in zip(p[:n_pre], pre[2])):
            raise Unsupported('Wire.prepared was not only appended to in ' + where)
        for w in p[n_pre:]:
            if not any(w is x for x in new_prepared):
                new_prepared.append(w)
    # --- wires
    m_w = []
    for j, w in enumerate(region.wires):
        vals = [r.state[1][j][0] for r in ok]
        v = merge_values(conds, vals)
        if any(w is x for x in new_prepared):
            nxt = []
            for r in ok:
                if any(w is x for x in r.state[2][n_pre:]):
                    nxt.append(r.state[1][j][1])
                else:
                    nxt.append(r.state[1][j][0])     # not prepared on this path: keeps its value
            n = merge_values(conds, nxt)
        else:
            n = pre[1][j][1]
        m_w.append((v, n))
    for w in new_prepared:
        if not any(w is x for x in region.wires):
            raise Unsupported('a wire outside the region was prepared in ' + where)
    m_ex = [merge_values(conds, [r.state[3][k] for r in ok]) for k in range(len(region.extra))]
    region.restore((m_attrs, m_w, list(pre[2]) + new_prepared, m_ex))
    return res


# ----------------------------------------------------------------------------------------
# leaf wrapping

def leaf_wires(leaf):
    ws = []
    for p in list(leaf.inPorts) + list(leaf.outPorts) + list(leaf.inOutPorts):
        if p.wire is not None and isinstance(p.wire, Wire) and not any(p.wire is x for x in ws):
            ws.append(p.wire)
    return ws


class LeafShell:
    """callable installed as instance attribute `propagate`/`clock` of a leaf"""

    def __init__(self, leaf, which, recorder=None):
        self.leaf = leaf
        self.which = which
        self.orig = getattr(type(leaf), which).__get__(leaf, type(leaf))
        self.region = Region([leaf], leaf_wires(leaf))
        self.recorder = recorder
        self.qualname = '%s.%s.%s' % (type(leaf).__module__, type(leaf).__name__, which)

    def __call__(self):
        if self.recorder is not None:
            self.recorder.add(self.qualname)
        ins = [p.wire for p in self.leaf.inPorts if p.wire is not None]
        before = [w.value for w in ins]
        run_merged(self.orig, self.region, where=self.leaf.getFullPath() + '.' + self.which)
        outs = [p.wire for p in self.leaf.outPorts]
        for w, v in zip(ins, before):
            if not same_value(w.value, v) and not any(w is o for o in outs):
                raise SymbolicPathError(Exception('leaf modified one of its input wires'), ctx.full_pc(),
                                        self.leaf.getFullPath())


def instrument(sys, recorder=None):
    """wrap propagate/clock of every leaf below `sys` (idempotent)"""
    n = 0
    for leaf in sys.allLeaves():
        for which in ('propagate', 'clock'):
            f = leaf.__dict__.get(which)
            if isinstance(f, LeafShell):
                continue
            if callable(getattr(type(leaf), which, None)):
                leaf.__dict__[which] = LeafShell(leaf, which, recorder)
                n += 1
    return n


def uninstrument(sys):
    for leaf in sys.allLeaves():
        for which in ('propagate', 'clock'):
            if isinstance(leaf.__dict__.get(which), LeafShell):
                del leaf.__dict__[which]


# ----------------------------------------------------------------------------------------
# system helpers

def all_wires(obj, acc=None):
    """every Wire reachable from the hierarchy (Logic._wires and port wires)"""
    if acc is None:
        acc = []
    seen = set(id(w) for w in acc)

    def add(w):
        if w is not None and isinstance(w, Wire) and id(w) not in seen:
            seen.add(id(w))
            acc.append(w)

    def rec(o):
        for w in o._wires.values():
            add(w)
        for p in list(o.inPorts) + list(o.outPorts) + list(o.inOutPorts):
            add(p.wire)
        for c in o.children.values():
            rec(c)
    rec(obj)
    return acc


def system_region(sys, extra=()):
    leaves = [l for l in sys.allLeaves()]
    ex = list(extra)
    if getattr(sys, 'simulator', None) is not None:
        ex.append((sys.simulator, 'total_clks'))
    return Region(leaves, all_wires(sys), ex)


def undriven_inputs(sys):
    """wires of the hierarchy without a source (the testbench pokes these)"""
    r = []
    for w in all_wires(sys):
        if getattr(w, 'source', None) is None and w.name != 'clk':
            r.append(w)
    return r


def poke_fresh(wires, tag=''):
    """put a fresh symbol on each wire; returns {wire: z3 variable}"""
    vs = {}
    for w in wires:
        s, v = core.fresh('%s%s' % (tag, w.name), w.getWidth())
        w.put(s)
        vs[w] = v
    return vs


def sequential_leaves(sys):
    return [l for l in sys.allLeaves() if callable(getattr(type(l), 'clock', None))]


def symbolic_state(sys, tag='s_', skip=()):
    """Make the state of every sequential leaf symbolic: integer attributes, integer lists
    (memories) and driven output wires get fresh symbols.  Returns (vars, constraints) where
    constraints is a list of z3 Bools describing the representation invariant pieces that the
    caller may add as assumptions (ranges are built into the symbols)."""
    vs = []
    for leaf in sequential_leaves(sys):
        if leaf in skip:
            continue
        for p in leaf.outPorts:
            w = p.wire
            s, v = core.fresh('%s%s.%s' % (tag, leaf.getFullPath(), p.name), w.getWidth())
            w.value = s
            vs.append((('wire', leaf, p.name), v))
    return vs
