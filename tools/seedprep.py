#!/usr/bin/env python3
"""tools/seedprep.py <root dir under /tmp> : one scratch worktree of /repo per claimed property with SEED/PROPERTY.txt (property text
only) and <root>/RULES.txt for the seeding sub-agents; nothing from /verif is copied into the worktrees."""
import json, os, subprocess, sys
root = sys.argv[1]
os.makedirs(root, exist_ok=True)
open(os.path.join(root, 'RULES.txt'), 'w').write(open('/verif/tools/seed_rules.txt').read().replace('@ROOT@', root))
for l in open('/verif/properties.jsonl'):
    d = json.loads(l)
    i = d['id']
    if i == 'C18':
        continue
    wt = os.path.join(root, i)
    subprocess.run(['git', '-C', '/repo', 'worktree', 'add', '-q', '--detach', wt, 'HEAD'], check=True)
    os.makedirs(wt + '/SEED', exist_ok=True)
    t = '%s: %s\n\n%s\n\nQuantified over: %s\n\nRelevant source files: %s\n\nWhat in the code is meant to make it hold:\n' % (
        i, d['title'], d['statement'], d['quantifier']['text'], ', '.join(d['anchors']['files']))
    for m in d['anchors'].get('mechanism', []):
        t += '- %s (%s)\n' % (m['name'], m['where'])
    open(wt + '/SEED/PROPERTY.txt', 'w').write(t)
print(sorted(os.listdir(root)))
