#!/bin/sh
# tools/seedverify.sh <worktree> : confirm the three conditions of a seeded change in its scratch worktree
wt="$1"
cd "$wt" || exit 3
PYTHONPATH="$wt" /venv/bin/python SEED/demo.py >/dev/null 2>&1; with=$?
git apply -R SEED/patch.diff || exit 3
PYTHONPATH="$wt" /venv/bin/python SEED/demo.py >/dev/null 2>&1; without=$?
git apply SEED/patch.diff || exit 3
t=$(PYTHONPATH="$wt" /venv/bin/python -m pytest -q -p no:cacheprovider --timeout=900 2>&1 | tail -1)
echo "demo_with_change_rc=$with demo_without_change_rc=$without tests: $t"
