#!/bin/sh
# tools/seedtest.sh <patch.diff> <check id> [<check id> ...]
# applies a seeded change to /repo, runs the quick checks, and ALWAYS restores /repo afterwards
patch="$1"; shift
cd /verif
if [ -n "$(git -C /repo status --porcelain --untracked-files=no)" ]; then echo "/repo is not clean"; exit 3; fi
git -C /repo apply "$patch" || { echo "patch does not apply"; exit 3; }
trap 'git -C /repo checkout -- . ' EXIT
for id in "$@"; do
  out=$(./check "$id" --tier "${TIER:-quick}" --no-evidence 2>&1 | grep -v conda)
  rc=$?
  n=$(echo "$out" | grep -c '^VIOLATION')
  echo "[$id] violations=$n  $(echo "$out" | tail -1 | cut -c1-160)"
  echo "$out" | grep -A1 '^VIOLATION' | grep 'config=' | head -2 | cut -c1-260
done
