#!/usr/bin/env python3
"""tools/seedkeep.py <worktree> <name> <property> "<detected by>" : store a confirmed seeded change under /verif/seeded/<name>/"""
import json, os, shutil, sys
wt, name, prop, detected = sys.argv[1:5]
dst = os.path.join('/verif/seeded', name)
os.makedirs(dst, exist_ok=True)
shutil.copy(os.path.join(wt, 'SEED/patch.diff'), os.path.join(dst, 'patch.diff'))
shutil.copy(os.path.join(wt, 'SEED/demo.py'), os.path.join(dst, 'demo.py'))
meta = json.load(open(os.path.join(wt, 'SEED/meta.json')))
meta['property'] = prop
meta['confirmed_by_me'] = {
    'what_i_ran': ['tools/seedverify.sh <scratch worktree>  (demo with the change: exit 1; demo with the change reverted: exit 0; full pytest suite with the change: all pass, the baseline-flaky Test_FPAdder_SP::test_random aside)',
                   'tools/seedtest.sh seeded/%s/patch.diff %s  (git -C /repo apply; ./check ...; git -C /repo checkout -- .)' % (name, prop)],
    'detected_by': detected,
}
json.dump(meta, open(os.path.join(dst, 'meta.json'), 'w'), indent=1)
print('kept', dst)
