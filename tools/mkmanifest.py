#!/usr/bin/env python3
"""Regenerates /verif/MANIFEST.json from the table below (keeps the file schema-valid)."""
import json
import os

ROOT = os.path.dirname(os.path.dirname(os.path.abspath(__file__)))

TB = 'trusts z3 (sampled queries re-decided by the cvc5 1.0.3 and z3 4.8.12 binaries in both tiers), the symx operator semantics and fork-and-merge shell (validated each run against concrete simulation on seeded inputs), and the reference written in the check module'

CHECKS = {
    'C04': ('model_checking', 'bounded, solver-backed: for every enumerated netlist and EVERY instantiation order the real sorter/propagateAll/clk run on symbolic inputs and the solver proves each leaf output equals its recomputation (fixpoint) and each wire equals the canonical-order term, for all input values; cyclic netlists are executed concretely (no data); where a netlist cannot be run symbolically (a leaf writing a wire registered as its input) the two clauses run on seeded concrete inputs and are named so',
            'SMT-based symbolic execution of the real simulator (z3 QF_BV) per construction order'),
    'C05': ('model_checking', 'bounded, solver-backed: one real clock edge from a fully symbolic pre-state for every permutation of the evaluation order; post-state terms proved equal for all states/inputs (1-step induction covers all histories); per-class path-complete audit of clock()',
            'SMT-based symbolic execution of the real clock()/_clk_cycle (z3 QF_BV), all evaluation orders'),
    'C06': ('model_checking', 'bounded, solver-backed: exact unbounded-integer terms for every wire at every observation point; query "some wire is outside [0,2**width)" for all inputs/states/constants',
            'SMT-based symbolic execution of the real simulator (z3 QF_BV) with exact widening integers'),
    'C07': ('model_checking', 'bounded, solver-backed: for every enumerated (block, widths, options) configuration the output terms produced by symbolically executing the real block are proved equal to an integer reference for ALL input values; widths beyond the stated bound are outside the claim',
            'SMT-based symbolic execution of the real code (z3 QF_BV), all inputs per configuration'),
    'C08': ('model_checking', 'bounded, solver-backed: as C07 with truth-table references; all input combinations per configuration',
            'SMT-based symbolic execution of the real code (z3 QF_BV), all inputs per configuration'),
    'C09': ('model_checking', 'bounded, solver-backed: one real clock step from ANY in-range register/memory state with any inputs against a reference machine (induction => unbounded input sequences), plus BMC from power-up and enumerated push/pop patterns with symbolic data for the LIFO clause',
            'SMT-based symbolic execution of the real clock()/simulator from a symbolic pre-state (z3 QF_BV); 1-step induction + BMC'),
    'C10': ('model_checking', 'bounded, solver-backed: one real clock step from a symbolic pre-state; the simulator\'s own enable test is forked and merged; gated leaves proved to hold when enable==0 and to equal an ungated twin otherwise, for all states/inputs',
            'SMT-based symbolic execution of the real Simulator._clk_cycle (z3 QF_BV) against an ungated twin'),
    'C13': ('model_checking', 'bounded, solver-backed: whole-block terms over 32-bit symbolic operands against field-level IEEE-754 integer oracles; adder exponent gap enumerated',
            'SMT-based symbolic execution of the real FP blocks (z3 QF_BV), all operand encodings per case'),
    'C14': ('model_checking', 'bounded, solver-backed: real fixed-point blocks on symbolic encodings against exact scaled-integer arithmetic for every enumerated format',
            'SMT-based symbolic execution of the real code (z3 QF_BV), all encodings per format'),
    'C15': ('model_checking', 'bounded, solver-backed: capture proved equal to the pre-edge wire terms for all values; rendering decoded back on every feasible path (path-complete, solver decides feasibility)',
            'SMT-based symbolic execution of Waveform.clock/get_wavedrom (z3), path-complete'),
    'C16': ('model_checking', 'bounded, solver-backed: one real clock step of the adapters from a symbolic pre-state coupled to a ghost monitor (induction) plus BMC from power-up with fully symbolic schedules',
            'SMT-based symbolic execution of the real adapters (z3 QF_BV); 1-step induction with ghost state + BMC'),
    'C17': ('model_checking', 'bounded, solver-backed: real serializer+clock recovery+deserializer on symbolic bytes (and symbolic valid/ready in the thorough tier) over a bounded horizon; delivered terms proved equal to the sent symbols; ratios 4..16 and single large ratios (1000; thorough 100..5208)',
            'SMT-based symbolic execution of the real UART link (z3 QF_BV), BMC'),
    'C20': ('model_checking', 'bounded, solver-backed: real CMDRequest/CMDResponse on symbolic hex digits, values and handshake bits over a bounded horizon; K<n>; for every n by decode-to-burst plus induction on the burst counter; a concrete per-digit sweep replaces the symbolic run only where the handshake turns out to depend on the digit',
            'SMT-based symbolic execution of the real codec FSMs (z3 QF_BV), BMC'),
    'C12': ('model_checking', 'bounded, solver-backed: helper functions executed on symbolic integers/mantissas with exponent fields enumerated; round trips and exact arithmetic proved for all values inside each case; boundary patterns of every exponent field are additionally pushed through struct and FPNum.to_float with the real math module (concrete, Decimal/log2 are outside the exact float model)',
            'SMT-based symbolic execution of the real helper functions (z3 QF_BV), exponent cases enumerated'),
    'C11': ('model_checking', 'bounded: path-complete symbolic execution of the construction API with symbolic selectors (names, wiring, fault position); solver decides path feasibility; the same obligations once more in a fresh interpreter (cold class-level caches), executed concretely',
            'symbolic execution with solver-decided selectors (z3), exhaustive within the template bounds'),
    'C01': ('translation_validation', 'per design: the Verilog text emitted by the real generator is elaborated by an IEEE-1364 subset front end into a transition system and proved equivalent (power-up, BMC, 1-step induction) to the terms obtained by symbolically executing the real simulator, for all inputs/states',
            'SMT equivalence checking (z3 QF_BV) between emitted Verilog (own front end) and symbolic execution of the real simulator'),
    'C02': ('translation_validation', 'per behavioural block/program: emitted always-block module vs symbolic execution of the real Python clock()/propagate() from a symbolic state, inside the stated value domain',
            'SMT equivalence checking (z3 QF_BV) between transpiled Verilog and the real Python method'),
    'C03': ('model_checking', 'static elaboration obligations (declared once, legal names, ports/widths, single driver) on all generator output of the C01/C02 corpus and adversarial naming configurations; same-name modules proved interchangeable by the solver',
            'elaboration obligations on generated Verilog + SMT body equivalence (z3)'),
    'C19': ('translation_validation', 'simulation terms before/after generation proved equal; repeated/interleaved generation results proved semantically equivalent by the solver',
            'SMT equivalence checking (z3 QF_BV) of generated texts and of simulation terms before/after generation'),
}

NA = [
    {'property_id': 'C18', 'reason': 'schematic place-and-route is a 2400-line heap/geometry heuristic with no integer data to make symbolic; neither symbolic execution nor an AST->SMT translation can encode it within reach (DESIGN.md section 4); any check would be plain enumeration, i.e. a different technique'},
]


def main():
    present = [p for p in sorted(CHECKS) if os.path.exists(os.path.join(ROOT, 'checks', p.lower() + '.py'))]
    checks = []
    for p in present:
        level, text, tech = CHECKS[p]
        checks.append({
            'property_id': p,
            'quick_cmd': './check %s --tier quick' % p,
            'thorough_cmd': './check %s --tier thorough' % p,
            'evidence_file': 'evidence/%s.json' % p,
            'replay_cmd_template': './check %s --replay {path}' % p,
            'engine': 'symx' if p not in ('C01', 'C02', 'C03', 'C19') else 'symx+vlog',
            'level_claimed': {'category': level, 'text': text, 'design_ref': 'DESIGN.md section 3 (%s)' % p},
            'level_note': TB,
            'technique': tech,
        })
    na = list(NA)
    for p in ['C%02d' % k for k in range(1, 21)]:
        if p not in present and p != 'C18':
            na.append({'property_id': p, 'reason': 'check not built yet in this tree (planned, see DESIGN.md); not claimed'})
    m = {
        'version': 1,
        'setup_cmd': './setup.sh',
        'hooks': {
            'guard': 'PY4HW_VERIF',
            'enable': 'no source hooks are needed: all observation points are public attributes and the symbolic wrappers are installed per instance by the checks (the checks export PY4HW_VERIF=1, nothing in /repo reads it)',
            'baseline_off_cmd': 'cd /repo && /venv/bin/python -m pytest -ra -q -p no:cacheprovider --timeout=900 --continue-on-collection-errors',
            'source_commits': [],
            'add_only': True,
        },
        'engines': [
            {'name': 'symx', 'path': 'symx/', 'serves_properties': [p for p in present],
             'kind_free_text': 'symbolic execution of the real py4hw propagate/clock/simulator/helper code on exact widening z3 bit-vector integers with leaf-level fork-and-merge; z3 decides every obligation'},
            {'name': 'vlog', 'path': 'vlog/', 'serves_properties': [p for p in present if p in ('C01', 'C02', 'C03', 'C19')],
             'kind_free_text': 'own IEEE-1364 subset front end: parses/elaborates the emitted Verilog into SMT transition systems'},
        ],
        'checks': checks,
        'not_applicable': na,
        'notes': 'Exit codes: 0 held (KNOWN-FINDING lines allowed), 1 VIOLATION, 2 harness error. Genuine defects repaired in /repo are listed as "fixed:" in known_findings.json.',
    }
    with open(os.path.join(ROOT, 'MANIFEST.json'), 'w') as f:
        json.dump(m, f, indent=1)
    print('MANIFEST.json: %d checks, %d not applicable' % (len(checks), len(na)))


if __name__ == '__main__':
    main()
